"""Minimal Rust source scanner: masking of comments/strings, brace matching, item lookup.

Everything here works on the *text* of a file from the snapshot of /repo.  It never rewrites
code; it only finds byte ranges so that the callers can copy them verbatim.
"""
import re


class ExtractError(Exception):
    """Raised when an item/anchor cannot be located unambiguously (=> UNDECIDED, exit 2)."""


def mask(src: str) -> str:
    """Return a string of the same length where comments, string/char literals are blanked
    (newlines kept).  Lifetimes ('a) are kept."""
    return _scan(src)[0]


def _scan(src: str):
    out = list(src)
    kinds = bytearray(len(src))  # 0 code, 1 comment, 2 literal inside
    n = len(src)
    i = 0
    cur_kind = [2]

    def blank(a, b):
        for k in range(a, b):
            kinds[k] = cur_kind[0]
            if out[k] != "\n":
                out[k] = " "

    while i < n:
        c = src[i]
        if c == "/" and i + 1 < n and src[i + 1] == "/":
            j = src.find("\n", i)
            if j < 0:
                j = n
            cur_kind[0] = 1
            blank(i, j)
            cur_kind[0] = 2
            i = j
        elif c == "/" and i + 1 < n and src[i + 1] == "*":
            depth = 1
            j = i + 2
            while j < n and depth:
                if src.startswith("/*", j):
                    depth += 1
                    j += 2
                elif src.startswith("*/", j):
                    depth -= 1
                    j += 2
                else:
                    j += 1
            cur_kind[0] = 1
            blank(i, j)
            cur_kind[0] = 2
            i = j
        elif c == '"' or (c in "br" and re.match(r'(?:b?r#*"|b")', src[i:i + 12]) and (i == 0 or not (src[i - 1].isalnum() or src[i - 1] == "_"))):
            m = re.match(r'(b?)(r?)(#*)"', src[i:i + 40])
            if not m:
                i += 1
                continue
            raw = bool(m.group(2))
            hashes = m.group(3)
            j = i + m.end()
            if raw:
                endtok = '"' + hashes
                k = src.find(endtok, j)
                k = n if k < 0 else k + len(endtok)
            else:
                k = j
                while k < n and src[k] != '"':
                    k += 2 if src[k] == "\\" else 1
                k += 1
            # keep the quotes, blank the inside
            blank(i + m.end(), max(i + m.end(), k - 1 - (len(hashes) if raw else 0)))
            i = k
        elif c == "'":
            # char literal or lifetime
            if i + 1 < n and src[i + 1] == "\\":
                k = i + 2
                while k < n and src[k] != "'":
                    k += 1
                blank(i + 1, k)
                i = k + 1
            elif i + 2 < n and src[i + 2] == "'":
                blank(i + 1, i + 2)
                i += 3
            else:
                # could be a multi-byte char literal like 'é'
                m = re.match(r"'[^'\\\n]'", src[i:i + 8])
                if m and not re.match(r"'[A-Za-z_][A-Za-z0-9_]*", src[i:i + 8]):
                    blank(i + 1, i + m.end() - 1)
                    i += m.end()
                else:
                    i += 1
        else:
            i += 1
    return "".join(out), kinds


def match_brace(masked: str, i: int, open_ch="{", close_ch="}") -> int:
    """masked[i] == open_ch; return index of the matching close."""
    assert masked[i] == open_ch, (masked[i:i + 20], open_ch)
    depth = 0
    n = len(masked)
    k = i
    while k < n:
        ch = masked[k]
        if ch == open_ch:
            depth += 1
        elif ch == close_ch:
            depth -= 1
            if depth == 0:
                return k
        k += 1
    raise ExtractError("unbalanced %s at offset %d" % (open_ch, i))


def norm_ws(s: str) -> str:
    return re.sub(r"\s+", " ", s).strip()


def find_impl(masked: str, header: str):
    """Find `impl ... {` whose normalised header equals `header`; returns (body_open, body_close).
    header == "" means the whole file (free functions)."""
    if not header:
        return [(-1, len(masked))]
    want = norm_ws(header)
    hits = []
    for m in re.finditer(r"\b(impl|trait|mod)\b[^{;]*\{", masked):
        h = norm_ws(masked[m.start():m.end() - 1])
        if h == want or h == "pub " + want:
            hits.append(m.end() - 1)
    if not hits:
        raise ExtractError("impl header %r not found" % (header,))
    return [(o, match_brace(masked, o)) for o in hits]


def find_fn(src: str, masked: str, name: str, lo: int, hi: int):
    """Locate `fn name` directly inside masked[lo:hi] (brace depth 0 relative to lo+1).
    Returns dict with sig (text from visibility/`fn` up to the body brace), body_open, body_close."""
    hits = []
    depth = 0
    k = lo + 1
    pat = re.compile(r"\bfn\s+" + re.escape(name) + r"\b")
    while k < hi:
        ch = masked[k]
        if ch == "{":
            depth += 1
        elif ch == "}":
            depth -= 1
        elif ch == "f" and depth == 0:
            m = pat.match(masked, k)
            if m and (k == 0 or not (masked[k - 1].isalnum() or masked[k - 1] == "_")):
                hits.append(k)
        k += 1
    if len(hits) != 1:
        raise ExtractError("fn %s matched %d times" % (name, len(hits)))
    f = hits[0]
    # signature start: walk back over `pub`, `pub(crate)`, `const`, `unsafe`, `async` on the same item
    s = f
    while True:
        m = re.search(r"(pub(\s*\([^)]*\))?|const|unsafe|async)\s*$", masked[max(lo + 1, s - 40):s])
        if not m:
            break
        s = max(lo + 1, s - 40) + m.start()
    # body brace: first `{` after f at paren depth 0
    k = f
    pd = 0
    while k < hi:
        ch = masked[k]
        if ch in "([":
            pd += 1
        elif ch in ")]":
            pd -= 1
        elif ch == "{" and pd == 0:
            break
        elif ch == ";" and pd == 0:
            raise ExtractError("fn %s has no body" % name)
        k += 1
    bo = k
    bc = match_brace(masked, bo)
    return {"sig_start": s, "fn_kw": f, "body_open": bo, "body_close": bc,
            "sig": src[s:bo].rstrip(), "body": src[bo + 1:bc]}


def line_of(src: str, off: int) -> int:
    return src.count("\n", 0, off) + 1


def find_type_def(src: str, masked: str, kind: str, name: str):
    """Return the text inside the braces / parens of `struct|enum name`."""
    ms = list(re.finditer(r"\b%s\s+%s\b[^;{(]*([{(])" % (kind, re.escape(name)), masked))
    if len(ms) != 1:
        raise ExtractError("%s %s matched %d times" % (kind, name, len(ms)))
    o = ms[0].end() - 1
    if masked[o] == "{":
        c = match_brace(masked, o)
    else:
        c = match_brace(masked, o, "(", ")")
    return strip_comments(src, masked, o + 1, c)


def strip_comments(src, masked=None, a=0, b=None):
    """text src[a:b] with comments removed (strings kept)."""
    kinds = _scan(src)[1]
    if b is None:
        b = len(src)
    return "".join(src[i] for i in range(a, b) if kinds[i] != 1)


def split_top(s: str, sep=","):
    """split at top-level separators (ignoring <>, (), [], {})."""
    parts, depth, cur = [], 0, []
    for i, ch in enumerate(s):
        if ch in "<([{":
            depth += 1
        elif ch in ">)]}":
            if not (ch == ">" and i > 0 and s[i - 1] in "-="):
                depth -= 1
        if ch == sep and depth == 0:
            parts.append("".join(cur))
            cur = []
        else:
            cur.append(ch)
    if "".join(cur).strip():
        parts.append("".join(cur))
    return [p.strip() for p in parts]


def fields_of(body: str):
    """Normalised field list `name: type` (attributes, visibility dropped)."""
    res = []
    for p in split_top(body):
        p = re.sub(r"#\[[^\]]*\]", "", p)
        p = re.sub(r"^\s*pub(\s*\([^)]*\))?\s*", "", p.strip())
        p = norm_ws(p)
        if p:
            res.append(p)
    return res

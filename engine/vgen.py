"""Generate a single-file Verus input from a unit template (`*.vrs`) and the snapshot of /repo.

Template directives (each on its own line, introduced by `//@@`):

  //@@ fn file=<path> [impl="impl X"] name=<fn> [ret=<ident>] [as=<new fn name>] [vis=keep|none] [optional=1]
  //@@ slice file=<path> [impl="impl X"] name=<fn> (block=/re/ | start=/re/ (end=/re/ | endblock=/re/)) [raw=1]
        after=1 / before=1: the range starts after the start match / ends before the end match;
        block: the inside of the {..} that follows the match; start..end: whole lines from the start match to
        the end match; endblock: ... to the end of the {..} block that follows the end match
  //@@ sig <verus signature line(s) for a slice>          (slice only; may repeat)
  //@@ rw /regex/ => replacement [n=<count>|n=+|n=*]      (applied to the extracted body)
  //@@ sigrw /regex/ => replacement [n=..]                 (applied to the extracted signature)
  //@@ contract                                            (following lines: requires/ensures/decreases)
  //@@ loop <k>                                            (following lines: invariant/decreases for k-th loop)
  //@@ pre                                                 (following lines: statements put at body start)
  //@@ post                                                (following lines: text put after the body, before `}`)
  //@@ attrs                                               (following lines: attributes put before the signature)
  //@@ end
  //@@ struct file=<path> name=<T> [attrs="#[derive(..)]"]   (copies the struct definition, fields made pub)
  //@@ check-struct file=<path> name=<T> fields="a: A, b: B" [drop="c, d"]
  //@@ check-enum   file=<path> name=<T> variants="A, B, C"
  //@@ include <relative file>
  //@@ impl file=<path> impl="impl X" [except=f,g] [header="impl X"]   (copies the whole impl block; following //@@ rw lines apply)
  //@@ consts file=<path>                                  (copies the module-level `const` items of the file)

Between `fn|slice` and `end`, the engine emits:   <signature> <contract> { <pre> <body> }
where signature and body are copied from the snapshot.  Everything else in the template is
copied through.  Obligations are named by `// @ob <name> [Cxx,Cyy]` trailers on clause lines.
"""
import os
import re
import shlex

import rsx
from rsx import ExtractError

GLOBAL_RW = [
    # logging has no effect on state
    (re.compile(r"^[ \t]*log::(trace|debug|info|warn|error)!\((?:[^()]|\((?:[^()]|\([^()]*\))*\))*\);[ \t]*\n", re.M), "", "*"),
]


def strip_log_macros(text):
    """remove `log::<level>!( ... );` statements (any nesting), using the masked text for paren matching"""
    masked = rsx.mask(text)
    out = []
    pos = 0
    for m in re.finditer(r"\blog::(?:trace|debug|info|warn|error)!\s*\(", masked):
        if m.start() < pos:
            continue
        try:
            c = rsx.match_brace(masked, m.end() - 1, "(", ")")
        except ExtractError:
            continue
        e = c + 1
        k = e
        while k < len(masked) and masked[k] in " \t":
            k += 1
        if k < len(masked) and masked[k] == ";":
            e = k + 1
        out.append(text[pos:m.start()])
        pos = e
    out.append(text[pos:])
    return "".join(out)


def parse_kv(s):
    lex = shlex.shlex(s, posix=True)
    lex.whitespace_split = True
    lex.commenters = ""
    out = {}
    for tok in lex:
        if "=" in tok:
            k, v = tok.split("=", 1)
            out[k] = v
        else:
            out[tok] = "1"
    return out


def parse_rw(line):
    m = re.match(r"\s*/(.*)/\s*=>\s?(.*?)(?:\s+n=(\d+|\+|\*))?\s*$", line)
    if not m:
        raise ExtractError("bad rw directive: " + line)
    return (re.compile(m.group(1), re.M | re.S), m.group(2), m.group(3) or "1")


RW_COUNTS = {}   # where -> {pattern: matches} of the last expansion (read by the back ends for drift detection)


def apply_rw(text, rules, where):
    for pat, rep, cnt in rules:
        new, k = pat.subn(rep, text)
        RW_COUNTS.setdefault(where, {})[pat.pattern] = RW_COUNTS.get(where, {}).get(pat.pattern, 0) + k
        ok = (cnt == "*") or (cnt == "+" and k >= 1) or (cnt.isdigit() and k == int(cnt))
        if not ok:
            raise ExtractError("%s: rewrite /%s/ matched %d times, expected %s" % (where, pat.pattern, k, cnt))
        text = new
    return text


def loops_in(masked_body):
    """offsets of the `{` opening each loop body, in source order, for while/for/loop keywords."""
    res = []
    for m in re.finditer(r"\b(while|for|loop)\b", masked_body):
        k = m.end()
        pd = 0
        while k < len(masked_body):
            ch = masked_body[k]
            if ch in "([":
                pd += 1
            elif ch in ")]":
                pd -= 1
            elif ch == "{" and pd == 0:
                break
            k += 1
        res.append(k)
    return res


def retname(sig, ret):
    """`-> T` => `-> (ret: T)`"""
    if not ret:
        return sig
    m = re.search(r"\)\s*->\s*(.+?)\s*(where\b.*)?$", sig, re.S)
    if not m:
        raise ExtractError("no return type in signature: " + sig)
    ty = m.group(1)
    return sig[:m.start()] + ") -> (%s: %s)" % (ret, ty) + (" " + m.group(2) if m.group(2) else "")


class Gen:
    def __init__(self, snapshot_root, contracts_root):
        self.root = snapshot_root
        self.croot = contracts_root
        self.files = {}
        self.items = []      # extracted items: dict(name, kind, file, line, gen_lo, gen_hi)
        self.trusted = []
        self.sources = set()

    def src(self, rel):
        if rel not in self.files:
            p = os.path.join(self.root, rel)
            if not os.path.exists(p):
                raise ExtractError("file missing in snapshot: " + rel)
            s = open(p, encoding="utf-8").read()
            self.files[rel] = (s, rsx.mask(s))
        self.sources.add(rel)
        return self.files[rel]

    def locate_fn(self, kv):
        src, masked = self.src(kv["file"])
        found = []
        for lo, hi in rsx.find_impl(masked, kv.get("impl", "")):
            try:
                found.append(rsx.find_fn(src, masked, kv["name"], lo, hi))
            except ExtractError as e:
                if "matched 0 times" not in str(e):
                    raise
        if len(found) != 1:
            raise ExtractError("fn %s found %d times in %s %s" % (kv["name"], len(found), kv["file"], kv.get("impl", "")))
        return src, masked, found[0]

    def expand(self, template_path):
        lines = open(template_path, encoding="utf-8").read().split("\n")
        out = []
        i = 0
        while i < len(lines):
            ln = lines[i]
            st = ln.strip()
            if not st.startswith("//@@"):
                out.append(ln)
                i += 1
                continue
            d = st[4:].strip()
            head, _, rest = d.partition(" ")
            if head == "include":
                parts = rest.split()
                inc = os.path.join(os.path.dirname(template_path), parts[0])
                n_items = len(self.items)
                sub = self.expand(inc)
                for it in self.items[n_items:]:
                    it["gen_lo"] += len(out)
                    it["gen_hi"] += len(out)
                for opt in parts[1:]:
                    if opt.startswith("prefix="):
                        # obligations of an included file are re-proved in this unit under a prefixed name
                        pre = opt[len("prefix="):]
                        sub = [re.sub(r"(//\s*@ob\s+)", r"\g<1>" + pre + "/", l) for l in sub]
                out.extend(sub)
                i += 1
            elif head == "impl":
                # copy a whole impl block (all its methods, verbatim) except the listed functions
                kv = parse_kv(rest)
                isrc, imasked = self.src(kv["file"])
                blocks = rsx.find_impl(imasked, kv["impl"])
                drop = [x.strip() for x in kv.get("except", "").split(",") if x.strip()]
                rules = []
                j = i + 1
                while j < len(lines) and lines[j].strip().startswith("//@@ rw "):
                    rules.append(parse_rw(lines[j].strip()[len("//@@ rw "):]))
                    j += 1
                for (lo, hi) in blocks:
                    cuts = []
                    for fn in drop:
                        try:
                            f = rsx.find_fn(isrc, imasked, fn, lo, hi)
                        except ExtractError:
                            continue
                        a = f["sig_start"]
                        # include preceding doc comments / attributes
                        while True:
                            ls = isrc.rfind("\n", 0, a - 1)
                            prev = isrc[isrc.rfind("\n", 0, ls) + 1:ls] if ls > 0 else ""
                            if prev.strip().startswith("//") or prev.strip().startswith("#["):
                                a = isrc.rfind("\n", 0, ls) + 1
                            else:
                                break
                        cuts.append((a, f["body_close"] + 1))
                    text = isrc[lo + 1:hi]
                    for a, b in sorted(cuts, reverse=True):
                        text = text[:a - lo - 1] + text[b - lo - 1:]
                    text = strip_log_macros(text)
                    text = apply_rw(text, rules, kv["file"] + " " + kv["impl"])
                    self.items.append({"name": re.sub(r"[^A-Za-z0-9_]", "", kv["impl"].replace("impl", "")) + ".*", "kind": "impl", "file": kv["file"],
                                       "line": rsx.line_of(isrc, lo), "impl": kv["impl"], "src_name": "(all methods" + (" except " + ",".join(drop) if drop else "") + ")",
                                       "gen_lo": len(out) + 1, "gen_hi": len(out) + 1 + text.count("\n")})
                    out.append(kv.get("header", kv["impl"]) + " {")
                    out.extend(text.split("\n"))
                    out.append("}")
                i = j
            elif head == "consts":
                kv = parse_kv(rest)
                csrc, cmasked = self.src(kv["file"])
                depth = 0
                k = 0
                while k < len(cmasked):
                    ch = cmasked[k]
                    if ch == "{":
                        depth += 1
                    elif ch == "}":
                        depth -= 1
                    elif depth == 0 and cmasked.startswith("const ", k) and (k == 0 or not (cmasked[k - 1].isalnum() or cmasked[k - 1] == "_")):
                        e = cmasked.find(";", k)
                        item = csrc[k:e + 1]
                        if re.match(r"const\s+[A-Z_][A-Z0-9_]*\s*:", item):
                            out.append("pub " + item + "   // module-level constant copied from " + kv["file"])
                        k = e
                    k += 1
                i += 1
            elif head == "struct":
                # copy a struct definition verbatim from the snapshot (fields made pub), so that a unit keeps working when a
                # field is added; types the unit has no stand-in for make the generated file fail to compile (-> UNDECIDED)
                kv = parse_kv(rest)
                ssrc, smasked = self.src(kv["file"])
                body = rsx.find_type_def(ssrc, smasked, "struct", kv["name"])
                fields = rsx.fields_of(body)
                out.append("// ---- struct %s copied from %s ----" % (kv["name"], kv["file"]))
                if kv.get("attrs"):
                    out.append(kv["attrs"])
                out.append("pub struct %s { %s }" % (kv["name"], ", ".join("pub " + f for f in fields)))
                self.items.append({"name": kv["name"], "kind": "struct", "file": kv["file"], "line": 0, "impl": "", "src_name": kv["name"],
                                   "gen_lo": len(out), "gen_hi": len(out)})
                i += 1
            elif head == "check-struct" or head == "check-enum":
                self.check_type(head, parse_kv(rest))
                i += 1
            elif head in ("fn", "slice"):
                kv = parse_kv(rest)
                sec = {"rw": [], "contract": [], "loops": {}, "pre": [], "post": [], "attrs": [], "sig": [], "sigrw": []}
                cur = None
                i += 1
                while True:
                    if i >= len(lines):
                        raise ExtractError("unterminated //@@ %s in %s" % (head, template_path))
                    l2 = lines[i]
                    s2 = l2.strip()
                    i += 1
                    if s2.startswith("//@@"):
                        d2 = s2[4:].strip()
                        h2, _, r2 = d2.partition(" ")
                        if h2 == "end":
                            break
                        elif h2 == "rw":
                            sec["rw"].append(parse_rw(r2))
                        elif h2 == "sigrw":
                            sec["sigrw"].append(parse_rw(r2))
                        elif h2 == "sig":
                            sec["sig"].append(r2)
                        elif h2 == "contract":
                            cur = sec["contract"]
                        elif h2 == "pre":
                            cur = sec["pre"]
                        elif h2 == "post":
                            cur = sec["post"]
                        elif h2 == "attrs":
                            cur = sec["attrs"]
                        elif h2 == "loop":
                            parts2 = r2.split()
                            cur = sec["loops"].setdefault(int(parts2[0]), [])
                            for o2 in parts2[1:]:
                                if o2.startswith("var="):
                                    # the invariant text names the `for` variable as given here; the engine substitutes the
                                    # variable name found in the source (robust against a renamed loop variable)
                                    sec.setdefault("loopvars", {})[int(parts2[0])] = o2[4:]
                        else:
                            raise ExtractError("unknown directive " + d2)
                    else:
                        if cur is None:
                            if s2:
                                raise ExtractError("text outside a section: " + l2)
                        else:
                            cur.append(l2)
                gen_lo = len(out) + 1
                if kv.get("optional"):
                    # optional=1: a helper that the tree may not have (yet / any more); without it nothing is emitted and the
                    # callers are checked as they stand
                    try:
                        self.locate_fn(kv)
                    except ExtractError as e:
                        if "found 0 times" in str(e):
                            out.append("// (optional item %s not present in this tree)" % kv["name"])
                            continue
                        raise
                out.extend(self.emit_item(head, kv, sec))
                self.items[-1]["gen_lo"] = gen_lo
                self.items[-1]["gen_hi"] = len(out)
            else:
                raise ExtractError("unknown directive //@@ " + d)
        return out

    def check_type(self, head, kv):
        src, masked = self.src(kv["file"])
        if head == "check-struct":
            body = rsx.find_type_def(src, masked, "struct", kv["name"])
            real = rsx.fields_of(body)
            want = [rsx.norm_ws(x) for x in rsx.split_top(kv.get("fields", ""))]
            drop = [x.strip() for x in kv.get("drop", "").split(",") if x.strip()]
            real_kept = [f for f in real if f.split(":")[0].strip() not in drop]
            if real_kept != want:
                raise ExtractError("struct %s: fields in snapshot %r differ from template %r" % (kv["name"], real_kept, want))
            missing = [d for d in drop if d not in [f.split(":")[0].strip() for f in real]]
            if missing:
                raise ExtractError("struct %s: dropped fields %r no longer exist" % (kv["name"], missing))
        else:
            body = rsx.find_type_def(src, masked, "enum", kv["name"])
            real = rsx.fields_of(body)
            want = [rsx.norm_ws(x) for x in rsx.split_top(kv.get("variants", ""))]
            if real != want:
                raise ExtractError("enum %s: variants in snapshot %r differ from template %r" % (kv["name"], real, want))

    def emit_item(self, head, kv, sec):
        src, masked, f = self.locate_fn(kv)
        where = "%s::%s" % (kv["file"], kv["name"])
        if head == "fn":
            sig = f["sig"]
            sig = re.sub(r"^pub\s*\([^)]*\)", "pub", sig)
            if kv.get("vis") == "none":
                sig = re.sub(r"^pub\s+", "", sig)
            if "as" in kv:
                sig = re.sub(r"\bfn\s+" + re.escape(kv["name"]) + r"\b", "fn " + kv["as"], sig, 1)
            sig = apply_rw(sig, sec["sigrw"], where + " (signature)")
            sig = retname(sig, kv.get("ret"))
            body = f["body"]
            mbody = masked[f["body_open"] + 1:f["body_close"]]
            line = rsx.line_of(src, f["fn_kw"])
            name = kv.get("as", kv["name"])
            tyname = re.sub(r"<.*", "", kv.get("impl", "").split(" for ")[-1].replace("impl", "").strip())
            tyname = re.sub(r"[^A-Za-z0-9_]", "", tyname)
            if tyname:
                name = tyname + "." + name
        else:
            # slice of the function body
            b0 = f["body_open"] + 1
            bend = f["body_close"]
            for wkey in ("within", "within2"):
                if wkey in kv:
                    # narrow to the inside of the block that follows this anchor
                    wpat = re.compile(kv[wkey].strip("/"), re.S | re.M)
                    wm = list(wpat.finditer(masked, b0, bend))
                    if len(wm) != 1:
                        raise ExtractError("%s: %s anchor /%s/ matched %d times" % (where, wkey, wpat.pattern, len(wm)))
                    k = masked.find("{", wm[0].end() - 1 if masked[wm[0].end() - 1] == "{" else wm[0].end(), bend)
                    if k < 0:
                        raise ExtractError("%s: no block after %s anchor" % (where, wkey))
                    bend = rsx.match_brace(masked, k)
                    b0 = k + 1
            mb = masked[b0:bend]
            sb = src[b0:bend]
            # raw=1: the anchors are matched on the source text itself (needed when an anchor contains a string literal,
            # which the masked text blanks); offsets are the same, brace matching still uses the masked text
            tb = sb if kv.get("raw") else mb
            if "block" in kv:
                pat = re.compile(kv["block"].strip("/"), re.S)
                ms = list(pat.finditer(tb))
                if len(ms) != 1:
                    raise ExtractError("%s: block anchor /%s/ matched %d times" % (where, pat.pattern, len(ms)))
                k = mb.find("{", ms[0].end() - 1 if mb[ms[0].end() - 1] == "{" else ms[0].end())
                if k < 0:
                    raise ExtractError("%s: no block after anchor" % where)
                c = rsx.match_brace(mb, k)
                a, b = k + 1, c
            else:
                ps = re.compile(kv["start"].strip("/"), re.S | re.M)
                pe = re.compile(kv.get("end", kv.get("endblock", "")).strip("/"), re.S | re.M)
                ms = list(ps.finditer(tb))
                if len(ms) != 1 and not (kv.get("first") and len(ms) > 1):
                    raise ExtractError("%s: start anchor /%s/ matched %d times" % (where, ps.pattern, len(ms)))
                a = mb.rfind("\n", 0, ms[0].start()) + 1
                if kv.get("after"):
                    a = ms[0].end()                      # the range starts right after the start anchor
                me = [m for m in pe.finditer(tb) if m.start() >= ms[0].start()]
                if kv.get("end") == "$":
                    me = [re.compile(r"\Z").search(mb)]       # to the end of the function body
                if not me:
                    raise ExtractError("%s: end anchor /%s/ not found after start" % (where, pe.pattern))
                e = me[0]
                if kv.get("end") == "$":
                    b = len(mb)
                elif kv.get("before"):
                    b = e.start()                         # the range ends right before the end anchor
                elif "endblock" in kv:
                    # the range ends with the brace-matched block that follows the end anchor
                    k = mb.find("{", e.end() - 1 if mb[e.end() - 1] == "{" else e.end())
                    if k < 0:
                        raise ExtractError("%s: no block after end anchor" % where)
                    b = rsx.match_brace(mb, k) + 1
                else:
                    b = mb.find("\n", e.end())
                    b = len(mb) if b < 0 else b
            body = sb[a:b]
            mbody = mb[a:b]
            if not sec["sig"]:
                raise ExtractError("%s: slice without //@@ sig" % where)
            sig = "\n".join(sec["sig"])
            line = rsx.line_of(src, b0 + a)
            name = re.search(r"\bfn\s+(\w+)", sig).group(1)
        # loop invariants (offsets computed on the masked, un-rewritten body, inserted back to front)
        if sec["loops"]:
            offs = loops_in(mbody)
            for k in sorted(sec["loops"], reverse=True):
                if k >= len(offs):
                    raise ExtractError("%s: loop #%d not found (%d loops)" % (where, k, len(offs)))
                o = offs[k]
                inv = "\n".join(sec["loops"][k])
                tv = sec.get("loopvars", {}).get(k)
                if tv:
                    hdr = mbody[:o]
                    mv = list(re.finditer(r"\bfor\s+(\w+)\s+in\b", hdr))
                    if mv and mv[-1].group(1) != tv:
                        real = mv[-1].group(1)
                        fixed = []
                        for ln in inv.split("\n"):
                            # capture avoidance: a quantifier in this clause that binds the real loop variable's name gets a fresh name
                            if re.search(r"(forall|exists)\|[^|]*\b%s\b\s*:" % re.escape(real), ln):
                                ln = re.sub(r"\b%s\b" % re.escape(real), real + "_bound", ln)
                            fixed.append(re.sub(r"\b%s\b" % re.escape(tv), real, ln))
                        inv = "\n".join(fixed)
                body = body[:o] + "\n" + inv + "\n" + body[o:]
        body = strip_log_macros(body)
        body = apply_rw(body, sec["rw"], where)
        self.items.append({"name": name, "kind": head, "file": kv["file"], "line": line,
                           "impl": kv.get("impl", ""), "src_name": kv["name"]})
        out = ["// ---- extracted %s from %s:%d (%s) ----" % (head, kv["file"], line, kv["name"])]
        out.extend(sec["attrs"])
        out.extend(sig.split("\n"))
        out.extend(sec["contract"])
        out.append("{")
        out.extend(sec["pre"])
        out.extend(body.split("\n"))
        out.extend(sec["post"])
        out.append("}")
        return out


OB_RE = re.compile(r"//\s*@ob\s+([A-Za-z0-9_.\-]+)(?:\s*\[([A-Z0-9, ]+)\])?")


def obligations_in(lines):
    """map line number (1-based) -> (name, [props])"""
    res = {}
    for n, l in enumerate(lines, 1):
        m = OB_RE.search(l)
        if m:
            props = [p.strip() for p in m.group(2).split(",")] if m.group(2) else None
            res[n] = (m.group(1), props)
    return res


TRUST_TOKENS = ["external_body", "assume_specification", "admit()", "assume(", "external_fn_specification",
                "#[verifier::external", "#[verifier::truncate]", "by(nonlinear_arith)", "by(bit_vector)", "by (bit_vector)",
                "by (nonlinear_arith)", "axiom"]


def trusted_scan(lines):
    found = []
    for n, l in enumerate(lines, 1):
        code = l.split("//")[0]
        for t in ("external_body", "assume_specification", "admit()", "assume(", "#[verifier::external]",
                  "broadcast use", "#[verifier::truncate]"):
            if t in code:
                found.append((n, t, l.strip()))
    return found

"""Kani back end (Mode I, DESIGN §2.1): append `#[cfg(kani)]` harness modules to the real source
files of a scratch copy, run `cargo kani`, map CBMC check results to named obligations.

Harness conventions (text in contracts/<unit>/harness.rs or produced by harness_gen):
  * every harness function is `#[kani::proof] fn <name>()` inside `mod __verif_<unit>`;
  * property assertions carry a message starting with `ob:<obligation name>`;
  * `kani::cover!(cond, "cover:<name>")` marks reachability witnesses that must be SATISFIED;
  * any other failing CBMC check (overflow, index, unwrap, unwinding...) inside the harness is
    attributed to `<unit>.<harness>.safety`.
"""
import fcntl
import json
import os
import re
import shutil
import subprocess
import time

HERE = os.path.dirname(os.path.abspath(__file__))
VERIF = os.path.dirname(HERE)
CACHE = os.path.join(VERIF, ".cache")
SCRATCH = os.environ.get("VERIF_SCRATCH", "/var/tmp/verif-mos")


def run_killable(cmd, cwd, env=None, timeout=900):
    """subprocess.run that kills the whole process group on timeout (kani leaves cbmc children behind otherwise)"""
    import signal
    import resource
    cap = int(float(os.environ.get("VERIF_MEM_GB", "32")) * (1 << 30))

    def limit():
        # address-space cap per process (cbmc that outgrows it ends with "out of memory" -> UNDECIDED, never an alarm);
        # keeps a runaway solver from exhausting the machine
        try:
            resource.setrlimit(resource.RLIMIT_AS, (cap, cap))
        except Exception:
            pass
    p = subprocess.Popen(cmd, cwd=cwd, env=env, stdout=subprocess.PIPE, stderr=subprocess.PIPE, text=True, start_new_session=True, preexec_fn=limit)
    try:
        out, err = p.communicate(timeout=timeout)
        return p.returncode, out, err
    except subprocess.TimeoutExpired:
        try:
            os.killpg(p.pid, signal.SIGKILL)
        except Exception:
            pass
        out, err = p.communicate()
        return 124, (out or "") + "\n[timeout]", err or ""


def harness_text(unit):
    if unit.get("harness_gen"):
        p = subprocess.run(["python3", os.path.join(unit["dir"], unit["harness_gen"])], capture_output=True, text=True, check=True)
        return p.stdout
    return open(os.path.join(unit["dir"], unit.get("harness", "harness.rs"))).read()


def parse_harnesses(text):
    """harness name -> {obs: [names], covers: [names], bounded: str|None, unwind: int|None}"""
    res = {}
    # split on #[kani::proof] / proof_for_contract
    for m in re.finditer(r"((?:[ \t]*(?://[^\n]*|#\[[^\n]*\])\n)*)[ \t]*#\[kani::proof(?:_for_contract\(([^)]*)\))?\]\s*((?:#\[[^\n]*\]\s*)*)(?:pub\s+)?fn\s+(\w+)\s*\(\)\s*\{", text):
        name = m.group(4)
        # body by brace matching
        i = m.end() - 1
        depth = 0
        k = i
        while k < len(text):
            if text[k] == "{":
                depth += 1
            elif text[k] == "}":
                depth -= 1
                if depth == 0:
                    break
            k += 1
        body = text[i:k]
        pre = m.group(1) + m.group(3)
        bounded = None
        mb = re.search(r"//\s*@bounded\s+(.*)", pre)
        if mb:
            bounded = mb.group(1).strip()
        res[name] = {"obs": [], "covers": [], "bounded": bounded, "contract_of": m.group(2), "body": body, "pre": pre}
    return res


def name_collisions(names):
    """Kani's --harness filter matches substrings: a selected harness whose name is contained in another one would
    silently select that one too (e.g. a thorough-tier harness in the quick tier)"""
    names = list(names)
    return [(a, b) for a in names for b in names if a != b and a in b]


def collect_obs(text, hs):
    """obligation names per harness: `ob:` messages in the harness body and in helper fns it names."""
    helpers = {}
    for m in re.finditer(r"\bfn\s+(\w+)\s*(?:<[^>]*>)?\s*\(", text):
        name = m.group(1)
        if name in hs:
            continue
        i = text.find("{", m.end())
        depth = 0
        k = i
        while k < len(text):
            if text[k] == "{":
                depth += 1
            elif text[k] == "}":
                depth -= 1
                if depth == 0:
                    break
            k += 1
        helpers[name] = text[i:k]
    for h, info in hs.items():
        bodies = [info["body"]]
        seen = set()
        frontier = [info["body"]]
        while frontier:
            b = frontier.pop()
            for name, hb in helpers.items():
                if name not in seen and re.search(r"\b%s\s*\(" % re.escape(name), b):
                    seen.add(name)
                    bodies.append(hb)
                    frontier.append(hb)
        obs, covers = [], []
        texts = info.setdefault("ob_text", {})
        for b in bodies:
            for m in re.finditer(r'"ob:([A-Za-z0-9_.\-{}]+)', b):
                obs.append(m.group(1))
                # the asserted expression, for the evidence file
                k = b.rfind("assert!(", 0, m.start())
                if k >= 0 and m.group(1) not in texts:
                    texts[m.group(1)] = re.sub(r"\s+", " ", b[k + 8:m.start()]).rstrip(" ,")[:260]
            for m in re.finditer(r'"cover:([A-Za-z0-9_.\-]+)', b):
                covers.append(m.group(1))
        info["obs"] = obs
        info["covers"] = covers


def cache_key(units, snap, tier):
    """sha256 over everything the in-place run depends on: the package sources of the snapshot, the
    lock file, the harness texts, the unit descriptions, the tier and the tool versions"""
    import hashlib
    h = hashlib.sha256()
    h.update(("tier=%s;filter=%s;jobs=%s" % (tier, os.environ.get("VERIF_DEV_HARNESS_FILTER", ""), os.environ.get("VERIF_KANI_JOBS", ""))).encode())
    for u in units:
        h.update(json.dumps({k: v for k, v in u.items() if k != "dir"}, sort_keys=True).encode())
        h.update(harness_text(u).encode())
    for top in ("Cargo.lock", "Cargo.toml"):
        p = os.path.join(snap, top)
        if os.path.exists(p):
            h.update(open(p, "rb").read())
    for root in ("mos-core", "mos", "mos-testing"):
        for d, dirs, files in sorted(os.walk(os.path.join(snap, root))):
            dirs.sort()
            for f in sorted(files):
                if f.endswith((".rs", ".toml")):
                    fp = os.path.join(d, f)
                    h.update(os.path.relpath(fp, snap).encode())
                    h.update(open(fp, "rb").read())
    try:
        h.update(subprocess.run(["kani", "--version"], capture_output=True, text=True).stdout.encode())
    except Exception:
        pass
    return h.hexdigest()


def run_group(units, snap, tier):
    """units of one cargo package; returns list of result dicts"""
    t0 = time.time()
    pkg = units[0]["package"]
    # identical inputs give identical verifier verdicts: reuse them (e.g. C06 after C01 in one session)
    key = None
    if not os.environ.get("VERIF_NO_CACHE"):
        try:
            key = cache_key(units, snap, tier)
            cp = os.path.join(CACHE, "results", key + ".json")
            if os.path.exists(cp):
                res = json.load(open(cp))
                for r in res:
                    r["reused_result_of_identical_inputs"] = key[:16]
                return res
        except Exception:
            key = None
    res = run_group_uncached(units, snap, tier, pkg, t0)
    if key and all(r["status"] == "ok" for r in res):
        os.makedirs(os.path.join(CACHE, "results"), exist_ok=True)
        json.dump(res, open(os.path.join(CACHE, "results", key + ".json"), "w"))
    return res


def run_group_uncached(units, snap, tier, pkg, t0):
    os.makedirs(os.path.join(SCRATCH, "kani"), exist_ok=True)
    os.makedirs(CACHE, exist_ok=True)
    lock = open(os.path.join(CACHE, "kani.lock"), "w")
    fcntl.flock(lock, fcntl.LOCK_EX)
    try:
        return _run_group(units, snap, tier, pkg, t0)
    finally:
        fcntl.flock(lock, fcntl.LOCK_UN)


def _run_group(units, snap, tier, pkg, t0):
    src = os.path.join(SCRATCH, "kani", "src")
    subprocess.run(["rsync", "-a", "--delete", snap.rstrip("/") + "/", src + "/"], check=True)
    results = {}
    all_h = {}
    for u in units:
        r = {"unit": u["name"], "backend": "kani", "status": "ok", "reason": "", "obligations": [], "functions": list(u.get("functions", [])),
             "trusted": list(u.get("trusted", [])), "sources": [u["append_to"]], "wall_s": 0.0, "covers": {}}
        results[u["name"]] = r
        target = os.path.join(src, u["append_to"])
        if not os.path.exists(target):
            r["status"] = "undecided"
            r["reason"] = "extraction: file missing in snapshot: " + u["append_to"]
            continue
        try:
            text = harness_text(u)
        except Exception as e:
            r["status"] = "undecided"
            r["reason"] = "harness generation failed: %r" % e
            continue
        # function anchors: every function the unit claims to check must still exist
        real = open(target).read()
        missing = [f for f in u.get("requires_fns", []) if not re.search(r"\bfn\s+%s\b" % re.escape(f), real)]
        if missing:
            r["status"] = "undecided"
            r["reason"] = "extraction: fn %s not found in %s" % (",".join(missing), u["append_to"])
            continue
        # contract attributes inserted above `fn` lines (Kani function contracts)
        for fn, attrs in u.get("contract_attrs", {}).items():
            pat = re.compile(r"^([ \t]*)((?:pub(?:\([^)]*\))?\s+)?fn\s+%s\b)" % re.escape(fn), re.M)
            ms = list(pat.finditer(real))
            if len(ms) != 1:
                r["status"] = "undecided"
                r["reason"] = "extraction: fn %s matched %d times" % (fn, len(ms))
                break
            ins = "".join("%s#[cfg_attr(kani, %s)]\n" % (ms[0].group(1), a) for a in attrs)
            real = real[:ms[0].start()] + ins + real[ms[0].start():]
        if r["status"] != "ok":
            continue
        hs = parse_harnesses(text)
        collect_obs(text, hs)
        if name_collisions(hs):
            r["status"] = "undecided"
            r["reason"] = "harness names collide under Kani's substring filter: %r" % (name_collisions(hs)[:2],)
            continue
        sel = {}
        for h, info in hs.items():
            tiers = re.search(r"//\s*@tier\s+(\w+)", info["pre"])
            if tiers and tiers.group(1) == "thorough" and tier != "thorough":
                continue
            flt = os.environ.get("VERIF_DEV_HARNESS_FILTER")
            if flt and not re.search(flt, h):
                continue
            sel[h] = info
        if os.environ.get("VERIF_DEV_HARNESS_FILTER"):
            print("DEV: harness filter active (%s) - this run is not a complete check" % os.environ["VERIF_DEV_HARNESS_FILTER"])
        if not sel:
            r["status"] = "undecided"
            r["reason"] = "no harness selected"
            continue
        open(target, "w").write(real + "\n" + text)
        r["_hs"] = sel
        for h in sel:
            all_h[h] = u["name"]
    live = [u for u in units if results[u["name"]]["status"] == "ok"]
    if live:
        jobs = int(os.environ.get("VERIF_KANI_JOBS", max(u.get("jobs", 10) for u in live)))
        cmd = ["cargo", "kani", "-p", pkg, "-Z", "function-contracts", "-Z", "stubbing", "--output-format", "terse", "-j", str(jobs)]
        for h in all_h:
            cmd += ["--harness", h]
        extra = sorted(set(f for u in live for f in u.get("kani_flags", [])))
        cmd += extra
        env = dict(os.environ, CARGO_NET_OFFLINE="true", CARGO_TARGET_DIR=os.path.join(CACHE, "kani-target"))
        timeout = max(int(u.get("timeout", 1500)) for u in live)
        tk = time.time()
        rc, o1, o2 = run_killable(cmd, src, env, timeout)
        out = o1 + "\n" + o2
        kani_s = time.time() - tk
        os.makedirs(os.path.join(SCRATCH, "logs"), exist_ok=True)
        open(os.path.join(SCRATCH, "logs", "kani-%s.log" % pkg), "w").write(out)
        per = split_output(out)
        for u in live:
            r = results[u["name"]]
            r["checker_cmd"] = "CARGO_NET_OFFLINE=true cargo kani -p %s -Z function-contracts -Z stubbing --output-format terse -j %d %s --harness <%d harnesses of unit %s>" % (pkg, jobs, " ".join(extra), len(r["_hs"]), u["name"])
            fill_unit(u, r, per, rc, out, tier)
            r["wall_s"] = kani_s
            r["solver_s"] = sum(o.get("solver_s", 0) for o in r["obligations"] if o["name"].endswith(".safety"))
            # counterexamples for failed harnesses
            failed_h = sorted(set(o["harness"] for o in r["obligations"] if o["status"] == "failed"))
            for h in failed_h[:2]:
                tests = concrete_playback(pkg, h, src, env)
                for o in r["obligations"]:
                    if o["harness"] == h and o["status"] == "failed":
                        t = pick_cex(tests, o["name"])
                        o["counterexample"] = {"harness": h, "kani_any_values": t["values"] if t else None,
                                               "check": t["check"] if t else None}
            for h in failed_h[2:]:
                for o in r["obligations"]:
                    if o["harness"] == h and o["status"] == "failed":
                        o["counterexample"] = {"harness": h, "kani_any_values": None}
    for r in results.values():
        r.pop("_hs", None)
    if not os.environ.get("VERIF_KEEP"):
        shutil.rmtree(src, ignore_errors=True)
    return [results[u["name"]] for u in units]


def split_output(out):
    """harness short name -> dict(text, result, failed_checks, time)"""
    per = {}
    if re.search(r"^Thread \d+: Checking harness", out, re.M):
        # -j N: "Thread k: Checking harness X..." announces, a later "Thread k: " line starts X's block
        cur = {}
        blocks = {}
        active = None
        for line in out.split("\n"):
            m = re.match(r"^Thread (\d+): Checking harness (.*?)\.\.\.\s*$", line)
            if m:
                cur[m.group(1)] = m.group(2).strip()
                active = None
                continue
            m = re.match(r"^Thread (\d+):\s*(.*)$", line)
            if m and m.group(1) in cur:
                active = cur[m.group(1)]
                blocks.setdefault(active, [])
                blocks[active].append(m.group(2))
                continue
            if active is not None:
                blocks[active].append(line)
        parts = [""]
        for k, v in blocks.items():
            parts += [k, "\n".join(v)]
    else:
        parts = re.split(r"^Checking harness ([^\n]*?)\.\.\.\s*$", out, flags=re.M)
    for i in range(1, len(parts), 2):
        full = parts[i].strip()
        txt = parts[i + 1]
        short = full.split("::")[-1]
        res = None
        m = re.search(r"VERIFICATION:- (SUCCESSFUL|FAILED)", txt)
        if m:
            res = m.group(1)
        tm = re.search(r"Verification Time: ([0-9.]+)s", txt)
        fails = []
        for fm in re.finditer(r"Failed Checks: (.*)\n(?:\s*File: \"([^\"]*)\", line (\d+), in ([^\n]*))?", txt):
            fails.append({"desc": fm.group(1).strip(), "file": fm.group(2), "line": fm.group(3), "fn": fm.group(4)})
        covers = {}
        for cm in re.finditer(r'cover:([A-Za-z0-9_.\-]+)[^\n]*?(SATISFIED|UNSATISFIABLE|UNREACHABLE)', txt):
            covers[cm.group(1)] = cm.group(2)
        summ = re.search(r"\*\* (\d+) of (\d+) failed", txt)
        csum = re.search(r"\*\* (\d+) of (\d+) cover properties satisfied", txt)
        per[short] = {"text": txt, "result": res, "fails": fails, "time": float(tm.group(1)) if tm else 0.0,
                      "checks": int(summ.group(2)) if summ else 0, "covers": covers,
                      "cover_sat": (int(csum.group(1)), int(csum.group(2))) if csum else None,
                      "unwind_fail": "unwinding assertion" in txt and "FAILED" in txt and bool(re.search(r"Failed Checks: unwinding assertion", txt))}
    return per


def fill_unit(u, r, per, rc, out, tier):
    name = u["name"]
    default_props = u.get("properties", [])
    safety_props = u.get("safety_properties", default_props)
    for h, info in r["_hs"].items():
        blk = per.get(h)
        names = []
        for ob in info["obs"]:
            if ob not in names:
                names.append(ob)
        safety = "%s.%s.safety" % (name, h)
        htier = "thorough" if re.search(r"//\s*@tier\s+thorough", info["pre"]) else "quick"
        obs = {}
        q = ("/" + h) if u.get("qualify_by_harness") else ""
        for ob in names:
            props = u.get("ob_props", {}).get(ob, default_props)
            obs[ob] = {"name": ob + q, "unit": name, "backend": "kani", "props": props, "fn": u.get("fn_of", {}).get(h, h), "harness": h,
                       "status": "discharged", "bounded": info["bounded"], "clause": "harness %s asserts: %s" % (h, info.get("ob_text", {}).get(ob, "(see ob:%s)" % ob)), "solver_s": 0.0, "tier": htier}
        obs[safety] = {"name": safety, "unit": name, "backend": "kani", "props": u.get("safety_overrides", {}).get(h, safety_props), "fn": u.get("fn_of", {}).get(h, h), "harness": h,
                       "status": "discharged", "bounded": info["bounded"], "tier": htier,
                       "clause": "all CBMC checks (overflow, bounds, unwrap/expect, division, shifts, assert!, unwinding) reachable from harness %s" % h, "solver_s": 0.0}
        if blk is None or blk["result"] is None:
            for o in obs.values():
                o["status"] = "undecided"
            r["status"] = "undecided"
            why = "no verdict for harness %s (kani exit %d)" % (h, rc)
            m = re.search(r"(error(?:\[E\d+\])?: [^\n]*)", out)
            if m:
                why += ": " + m.group(1)[:200]
            if "[timeout]" in out:
                why += " [timeout]"
            r["reason"] = why
            r["detail"] = out[-3000:]
        else:
            obs[safety]["solver_s"] = blk["time"]
            obs[safety]["cbmc_checks"] = blk["checks"]
            for f in blk["fails"]:
                d = f["desc"]
                m = re.search(r"ob:([A-Za-z0-9_.\-]+)", d)
                if m and m.group(1) in obs:
                    o = obs[m.group(1)]
                elif "unwinding assertion" in d:
                    # bound too small: not a verdict about the property
                    for o2 in obs.values():
                        o2["status"] = "undecided"
                    r["status"] = "undecided"
                    r["reason"] = "unwinding assertion failed in %s (loop bound exceeded)" % h
                    continue
                else:
                    o = obs[safety]
                if o["status"] != "undecided":
                    o["status"] = "failed"
                    o.setdefault("reasons", []).append(d + (" (%s:%s in %s)" % (f["file"], f["line"], f["fn"]) if f["file"] else ""))
                    o["detail"] = (o.get("detail", "") + "Failed Checks: " + d + "\n")[:4000]
            if blk["result"] == "FAILED" and not blk["fails"]:
                for o in obs.values():
                    o["status"] = "undecided"
                r["status"] = "undecided"
                r["reason"] = "harness %s FAILED without a listed check" % h
                r["detail"] = blk["text"][-3000:]
            # vacuity: all covers of this harness satisfied
            for c in info["covers"]:
                st = blk["covers"].get(c)
                cs0 = blk["cover_sat"]
                r["covers"][h + ":" + c] = st or ("SATISFIED" if cs0 and cs0[0] == cs0[1] else "not reported")
            if info["covers"]:
                cs = blk["cover_sat"]
                if cs is None or cs[0] != cs[1]:
                    # fall back on per-cover lines
                    bad = [c for c in info["covers"] if blk["covers"].get(c) != "SATISFIED"]
                    if bad or cs is None:
                        for o in obs.values():
                            if o["status"] == "discharged":
                                o["status"] = "undecided"
                        r["status"] = "undecided"
                        r["reason"] = "vacuity: cover %s not satisfied in %s" % (",".join(bad) or "?", h)
            if blk["checks"] == 0:
                for o in obs.values():
                    o["status"] = "undecided"
                r["status"] = "undecided"
                r["reason"] = "vacuity: zero CBMC checks in %s" % h
        r["obligations"].extend(obs.values())


def concrete_playback(pkg, h, src, env):
    """re-run one failed harness with concrete playback and return the byte vectors of its kani::any() calls"""
    cmd = ["cargo", "kani", "-p", pkg, "-Z", "function-contracts", "-Z", "stubbing", "-Z", "concrete-playback",
           "--concrete-playback=print", "--harness", h, "--output-format", "terse"]
    rc, o1, o2 = run_killable(cmd, src, env, 900)
    if rc == 124:
        return None
    return parse_playback(o1)


def parse_playback(out):
    tests = []
    for m in re.finditer(r"/// Check for `(\w+)`: (.*?)\n.*?let concrete_vals: Vec<Vec<u8>> = vec!\[(.*?)\n\s*\];", out, re.S):
        vals = []
        for vm in re.finditer(r"vec!\[([0-9,\s]*)\]", m.group(3)):
            vals.append([int(x) for x in vm.group(1).replace(" ", "").split(",") if x])
        tests.append({"kind": m.group(1), "check": m.group(2).strip().strip('"'), "values": vals})
    return tests


def pick_cex(tests, ob_name):
    """values of the playback test generated for this obligation (or, for .safety, any non-cover check)"""
    if not tests:
        return None
    base = ob_name.split("/")[0]
    for t in tests:
        if t["kind"] != "cover" and ("ob:" + base) in t["check"]:
            return t
    if ob_name.endswith(".safety"):
        for t in tests:
            if t["kind"] != "cover" and "ob:" not in t["check"]:
                return t
    return None


def run_unit(u, snap, work, tier):
    return run_group([u], snap, tier)[0]

"""Replay of verifier counterexamples against the real binary (filled in per unit)."""
import json


def try_replay(rep, snap, work):
    return False


def replay_file(path):
    rep = json.load(open(path))
    print(json.dumps({k: rep[k] for k in ("property", "obligation", "unit", "verifier_reasons")}, indent=1))
    return 1

"""Replay of verifier counterexamples against the real `mos` binary (DESIGN §2.2).

A counterexample (the byte vectors of the harness' kani::any() calls) is turned into a tiny
project, assembled with the binary built from the *same snapshot*, and the observable (output
bytes / build error / panic) is compared with a reference written from the property statement
(ISA table, Python integers).  Only a reproduced disagreement confirms the violation as a failing
input; everything else is reported with `no-failing-input-found`."""
import json
import os
import shutil
import subprocess
import sys

HERE = os.path.dirname(os.path.abspath(__file__))
VERIF = os.path.dirname(HERE)
CACHE = os.path.join(VERIF, ".cache")


def le_int(bs, signed):
    return int.from_bytes(bytes(bs), "little", signed=signed)


def lit(v):
    """assembler text for an arbitrary i64"""
    if v >= 0:
        return str(v)
    if v == -(2 ** 63):
        return "(0-9223372036854775807-1)"
    return "(0-%d)" % (-v)


def build_binary(snap):
    env = dict(os.environ, CARGO_TARGET_DIR=os.path.join(CACHE, "real"), CARGO_NET_OFFLINE="true")
    p = subprocess.run(["cargo", "build", "--offline", "-p", "mos"], cwd=snap, env=env, capture_output=True, text=True, timeout=900)
    b = os.path.join(CACHE, "real", "debug", "mos")
    if p.returncode != 0 or not os.path.exists(b):
        raise RuntimeError("cannot build mos from the snapshot: " + p.stderr[-500:])
    return b


def run_project(binary, workdir, asm, cmd="build"):
    d = os.path.join(workdir, "replay-proj")
    shutil.rmtree(d, ignore_errors=True)
    os.makedirs(d)
    open(os.path.join(d, "mos.toml"), "w").write('[build]\nentry = "main.asm"\n')
    open(os.path.join(d, "main.asm"), "w").write(asm)
    p = subprocess.run([binary, "--no-color", "-e", "Short", cmd], cwd=d, capture_output=True, text=True, timeout=60)
    out = None
    prg = os.path.join(d, "target", "main.prg")
    if p.returncode == 0 and os.path.exists(prg):
        out = list(open(prg, "rb").read())
    res = {"asm": asm, "cmd": "mos --no-color -e Short " + cmd, "exit": p.returncode, "stderr": (p.stdout + p.stderr)[-600:], "prg": out}
    shutil.rmtree(d, ignore_errors=True)
    return res


# ---------------------------------------------------------------- generators
def gen_opcodes(rep):
    isa = json.load(open(os.path.join(VERIF, "spec", "isa6502.json")))["isa"]
    cex = rep["counterexample"]
    m = cex["harness"][len("opc_"):]
    v = le_int(cex["kani_any_values"][0], True)
    row = isa[m]
    forms = [("%s", "imp", None, None), ("%s #{v}", None, "imm", None), ("%s {v}", None, "zp", "abs"), ("%s {v},x", None, "zpx", "absx"),
             ("%s {v},y", None, "zpy", "absy"), ("%s ({v},x)", None, "indx", None), ("%s ({v}),y", None, "indy", None), ("%s ({v})", None, None, "ind")]
    cases = []
    for fmt, ik, sk, lk in forms:
        if "rel" in row:
            continue  # branches take a target, decided by the branch slice
        text = (fmt % m).replace("{v}", lit(v))
        if ik:
            exp = [row[ik]] if ik in row else None
            if "{v}" in fmt:
                continue
        else:
            short = row.get(sk) if sk else None
            long_ = row.get(lk) if lk else None
            if short is None and long_ is None:
                exp = None
            elif long_ is None and v > 255:
                exp = None
            elif v < 0 or v > 65535:
                continue
            elif v <= 255 and short is not None:
                exp = [short, v]
            elif long_ is not None:
                exp = [long_, v & 255, v >> 8]
            else:
                exp = None
        cases.append(("* = $1000\n" + text + "\n", exp))
    return cases


def gen_branch(rep):
    vals = rep["counterexample"]["kani_any_values"]
    value = le_int(vals[0], True)
    p = le_int(vals[1], False)
    d = value - (p + 2)
    exp = [0xd0, d & 255] if -128 <= d <= 127 else None
    cases = [("* = %d\nbne %s\n" % (p, lit(value)), exp)]
    if not (0x0200 <= p <= 0xf000):
        # the same branch distance in the middle of the address space (the verifier's witness may sit at an
        # edge where the instruction does not fit into the segment for an unrelated reason)
        cases.append(("* = $1000\nbne %s\n" % lit(0x1000 + 2 + d), exp))
    return cases


PYOPS = {"apply_add_sub": [("+", lambda a, b: a + b), ("-", lambda a, b: a - b)], "apply_mul": [("*", lambda a, b: a * b)],
         "apply_div": [("/", lambda a, b: abs(a) // abs(b) * (-1 if (a < 0) != (b < 0) else 1))],
         "apply_mod": [("%", lambda a, b: (abs(a) % abs(b)) * (-1 if a < 0 else 1))],
         "apply_shifts": [("<<", lambda a, b: a << b), (">>", lambda a, b: a >> b)],
         "apply_logic_cmp": [("==", lambda a, b: int(a == b)), ("!=", lambda a, b: int(a != b)), (">", lambda a, b: int(a > b)), (">=", lambda a, b: int(a >= b)),
                             ("<", lambda a, b: int(a < b)), ("<=", lambda a, b: int(a <= b)), ("&&", lambda a, b: int(a != 0 and b != 0)),
                             ("||", lambda a, b: int(a != 0 or b != 0)), ("^", lambda a, b: a ^ b)]}


def gen_apply(rep):
    vals = rep["counterexample"]["kani_any_values"]
    l = le_int(vals[0], True)
    r = le_int(vals[1], True)
    cases = []
    for sym, f in PYOPS.get(rep["counterexample"]["harness"], []):
        if sym in ("/", "%") and r == 0:
            continue
        if sym in ("<<", ">>") and not (0 <= r <= 63):
            cases.append(("* = $1000\n.byte (%s %s %s) == 0\n" % (lit(l), sym, lit(r)), None))
            continue
        e = f(l, r)
        if not (-(2 ** 63) <= e < 2 ** 63):
            if sym == "<<":
                continue  # the property is silent when the shifted value does not fit
            cases.append(("* = $1000\n.byte (%s %s %s) == 0\n" % (lit(l), sym, lit(r)), None))
        else:
            cases.append(("* = $1000\n.byte (%s %s %s) == %s\n" % (lit(l), sym, lit(r), lit(e)), [1]))
    return cases


def gen_data(rep):
    v = le_int(rep["counterexample"]["kani_any_values"][0], True)
    cases = []
    for d, n in ((".byte", 1), (".word", 2), (".dword", 4)):
        m = v % (1 << (8 * n))
        cases.append(("* = $1000\n%s %s\n" % (d, lit(v)), [(m >> (8 * i)) & 255 for i in range(n)]))
    return cases


def generators(rep):
    unit = rep.get("unit")
    h = (rep.get("counterexample") or {}).get("harness", "")
    if unit == "opcodes":
        return gen_opcodes(rep)
    if unit == "arith" and h == "branch_full":
        return gen_branch(rep)
    if unit == "arith" and h == "data_full":
        return gen_data(rep)
    if unit == "arith" and h.startswith("apply_") and h in PYOPS:
        return gen_apply(rep)
    return None


def try_replay(rep, snap, work):
    cex = rep.get("counterexample")
    if not cex or not cex.get("kani_any_values"):
        return False
    cases = generators(rep)
    if not cases:
        rep["replay_note"] = "no project generator for this unit: the verifier's counterexample is attached, not replayed"
        return False
    binary = build_binary(snap)
    rep["replays"] = []
    confirmed = False
    for asm, exp in cases:
        r = run_project(binary, work, asm)
        got = r["prg"][2:] if r["prg"] is not None else None      # strip the 2-byte prg header
        panicked = r["exit"] == 101 or "panicked" in r["stderr"]
        ok = (got == exp) and not panicked
        r["expected_bytes_after_header"] = exp
        r["observed_bytes_after_header"] = got
        r["agrees_with_reference"] = ok
        rep["replays"].append(r)
        if not ok:
            confirmed = True
    rep["replay_confirmed_on_real_binary"] = confirmed
    return confirmed


def replay_file(path):
    """re-run the check that produced the replay file and show whether the obligation still fails"""
    rep = json.load(open(path))
    print("property=%s obligation=%s unit=%s" % (rep["property"], rep["obligation"], rep["unit"]))
    for r in rep.get("replays", []):
        if not r.get("agrees_with_reference"):
            print("failing input:\n" + r["asm"] + "expected bytes %s, observed %s (exit %s)" % (r["expected_bytes_after_header"], r["observed_bytes_after_header"], r["exit"]))
    p = subprocess.run([os.path.join(VERIF, "check"), rep["property"], "--tier", rep.get("tier", "quick")], capture_output=True, text=True)
    still = any(("VIOLATION" in l and os.path.basename(path) in l) for l in p.stdout.split("\n"))
    print(p.stdout[-1500:])
    print("obligation %s %s on the current tree" % (rep["obligation"], "STILL FAILS" if still else "no longer fails"))
    return 1 if still else 0

#!/usr/bin/env python3
"""./check <property> [--tier quick|thorough]   |   ./check --replay <file>   |   ./check --baseline

Decides one property of datatrash/mos by discharging the contract obligations of every unit
that serves it, on text extracted from /repo's current working tree (see DESIGN.md §2).

exit 0  all obligations of the property discharged (KNOWN-FINDING lines for listed findings)
exit 1  VIOLATION property=<id> replay=<path> [no-failing-input-found]
exit 2  UNDECIDED property=<id> unit=<unit> reason=...   (never an alarm, never a pass)
"""
import concurrent.futures as cf
import hashlib
import json
import os
import re
import shutil
import subprocess
import sys
import time

HERE = os.path.dirname(os.path.abspath(__file__))
VERIF = os.path.dirname(HERE)
sys.path.insert(0, HERE)
import verus_be  # noqa: E402
import kani_be   # noqa: E402
import kanix_be  # noqa: E402

REPO = os.environ.get("VERIF_REPO", "/repo")
SCRATCH = os.environ.get("VERIF_SCRATCH", "/var/tmp/verif-mos")
CONTRACTS = os.path.join(VERIF, "contracts")
BASELINE = os.path.join(CONTRACTS, "baseline_obligations.json")
KNOWN = os.path.join(VERIF, "known_findings.txt")


def load_units():
    units = {}
    for d in sorted(os.listdir(CONTRACTS)):
        p = os.path.join(CONTRACTS, d, "unit.json")
        if os.path.exists(p):
            u = json.load(open(p))
            u["dir"] = os.path.join(CONTRACTS, d)
            u["name"] = d
            units[d] = u
    return units


def serves(u, prop):
    s = set(u.get("properties", [])) | set(u.get("safety_properties", [])) | set(u.get("also_serves", []))
    for v in list(u.get("ob_props", {}).values()) + list(u.get("safety_overrides", {}).values()):
        s |= set(v)
    return prop in s


def snapshot(dest):
    if os.path.exists(dest):
        shutil.rmtree(dest)
    os.makedirs(dest)
    subprocess.run(["rsync", "-a", "--delete", "--exclude", "/target", "--exclude", "/.git", "--exclude", "/vscode",
                    "--exclude", "/docs", REPO.rstrip("/") + "/", dest + "/"], check=True)


def load_known():
    findings = []
    if not os.path.exists(KNOWN):
        return findings
    for l in open(KNOWN):
        l = l.strip()
        if not l.startswith("finding:"):
            continue
        kv = dict(re.findall(r'(\w+)=("[^"]*"|\S+)', l[len("finding:"):]))
        kv = {k: v.strip('"') for k, v in kv.items()}
        findings.append(kv)
    return findings


def run_unit(u, snap, work, tier):
    try:
        if u["backend"] == "verus":
            return verus_be.run_unit(u, snap, os.path.join(work, "verus"), timeout=int(u.get("timeout", 600)))
        elif u["backend"] == "kanix":
            return kanix_be.run_unit(u, snap, os.path.join(work, "kanix"), tier)
        elif u["backend"] == "kani":
            return kani_be.run_unit(u, snap, os.path.join(work, "kani-" + u["name"]), tier)
        raise RuntimeError("unknown backend " + u["backend"])
    except Exception as e:  # engine bug: never an alarm
        import traceback
        return {"unit": u["name"], "backend": u["backend"], "status": "undecided", "reason": "engine error: %r" % e,
                "detail": traceback.format_exc(), "obligations": [], "functions": [], "trusted": [], "sources": [], "wall_s": 0}


def decide(prop, tier, seed):
    t0 = time.time()
    units = {n: u for n, u in load_units().items() if serves(u, prop) and tier in u.get("tiers", ["quick", "thorough"])}
    work = os.path.join(SCRATCH, prop)
    snap = os.path.join(work, "src")
    os.makedirs(work, exist_ok=True)
    snapshot(snap)
    results = []
    # Kani units are heavy (they parallelise internally); run them one after another, Verus units together
    vunits = [u for u in units.values() if u["backend"] in ("verus", "kanix")]
    kunits = [u for u in units.values() if u["backend"] == "kani"]
    with cf.ThreadPoolExecutor(max_workers=8) as ex:
        futs = [ex.submit(run_unit, u, snap, work, tier) for u in vunits]
        kres = []
        for pkg in sorted(set(u["package"] for u in kunits)):
            grp = [u for u in kunits if u["package"] == pkg]
            try:
                kres.extend(kani_be.run_group(grp, snap, tier))
            except Exception as e:
                import traceback
                for u in grp:
                    kres.append({"unit": u["name"], "backend": "kani", "status": "undecided", "reason": "engine error: %r" % e,
                                 "detail": traceback.format_exc(), "obligations": [], "functions": [], "trusted": [], "sources": [], "wall_s": 0})
        results = [f.result() for f in futs] + kres
    baseline = json.load(open(BASELINE)) if os.path.exists(BASELINE) else {}
    base = set(baseline.get(prop, []))
    known = [k for k in load_known() if k.get("property") == prop]
    known_full = {k["obligation"]: k for k in known}

    obs = []
    undecided = []
    for r in results:
        mine = [o for o in r["obligations"] if prop in o["props"]]
        obs.extend(mine)
        if r["status"] != "ok":
            undecided.append((r["unit"], r["reason"]))
    by_name = {o["name"]: o for o in obs}
    # A Verus proof that fails in a function which still contains a std call without specification (a shim rewrite did
    # not apply, e.g. after a rename) is undecided, not a violation.  Kani units run the real std code and are unaffected.
    for r in results:
        if r["backend"] != "verus":
            continue
        for o in r["obligations"]:
            calls = (r.get("unspecified_calls") or {}).get(o["fn"])
            if calls and o["status"] == "failed" and prop in o["props"]:
                o["status"] = "undecided"
                undecided.append((o["unit"], "%s calls std::%s, for which the Verus input has no specification (shim rewrite did not apply); failed obligation %s is not decided by this unit" % (o["fn"], "/".join(calls), o["name"])))
    violations = []
    known_lines = []
    for o in obs:
        if o["status"] != "failed":
            continue
        n = o["name"]
        if n in known_full:
            restricted = by_name.get(known_full[n].get("twin") or (n + ".outside_known_class"))
            if restricted is None:
                undecided.append((o["unit"], "known finding %s has no restricted twin" % n))
            elif restricted["status"] == "discharged":
                known_lines.append("KNOWN-FINDING: property=%s obligation=%s %s" % (prop, n, known_full[n].get("what", "")))
            # restricted failed -> reported below as its own violation
            continue
        if o.get("counterexample") is not None or n in base:
            violations.append(o)
        else:
            undecided.append((o["unit"], "obligation %s fails but was never discharged on the unchanged tree (not in baseline)" % n))
    thorough_only = set(baseline.get("_thorough_only", []))
    missing = sorted(n for n in base - set(by_name) if tier == "thorough" or n not in thorough_only)
    if missing and not undecided:
        undecided.append(("-", "baseline obligations not generated: " + ",".join(missing[:5])))
    for n, k in known_full.items():
        if n not in by_name and not undecided:
            undecided.append(("-", "known-finding obligation %s not generated" % n))

    # replay files
    lines = []
    rdir = os.path.join(os.environ.get("VERIF_REPLAY_DIR", os.path.join(VERIF, "replay")), prop)
    if violations:
        os.makedirs(rdir, exist_ok=True)
    import replay as replay_mod
    for o in violations:
        path = os.path.join(rdir, re.sub(r"[^A-Za-z0-9_.-]", "_", o["name"]) + ".json")
        rep = {"property": prop, "obligation": o["name"], "unit": o["unit"], "backend": o["backend"], "function": o["fn"],
               "clause": o.get("clause"), "verifier_reasons": o.get("reasons"), "verifier_output": o.get("detail", ""),
               "counterexample": o.get("counterexample"), "tier": tier,
               "sources": [r for rr in results if rr["unit"] == o["unit"] for r in rr.get("sources", [])]}
        suffix = " no-failing-input-found"
        nr = (o.get("counterexample") or {}).get("native_replay") or {}
        if nr.get("result") == "FAILED":
            suffix = ""      # the verifier's values make the extracted real code fail when run natively
        try:
            confirmed = replay_mod.try_replay(rep, snap, work)
            if confirmed:
                suffix = ""
            elif nr.get("result") == "FAILED" and rep.get("replays"):
                rep["replay_note"] = "native replay of the extracted code fails on the verifier's values; the project-level replay on the mos binary did not show a disagreement"
        except Exception as e:
            rep["replay_error"] = repr(e)
        json.dump(rep, open(path, "w"), indent=1)
        lines.append("VIOLATION property=%s replay=%s%s" % (prop, path, suffix))

    # obligations listed as known findings are expected to fail: they are reported separately and are not
    # part of the obligation count of the claim (their restricted twins are)
    kf_names = set(known_full)
    kf_obs = [o for o in obs if o["name"] in kf_names]
    obs = [o for o in obs if o["name"] not in kf_names]
    discharged = [o for o in obs if o["status"] == "discharged"]
    proved = [o for o in discharged if not o.get("bounded")]
    bounded = [o for o in discharged if o.get("bounded")]
    trusted = sorted(set(t for r in results for t in r.get("trusted", [])))
    man = manifest_entry(prop)
    level = man.get("level_claimed", {}).get("category", "proof")
    ev = {
        "property_id": prop, "tier": tier, "seed": seed, "level": level,
        "coverage": {
            # proof obligations proper: bounded stand-ins are reported separately and never counted as proved
            "obligations": len([o for o in obs if not o.get("bounded")]) if level == "proof" else len(obs),
            "discharged": len(proved) if level == "proof" else len(discharged),
            "bounded_standin_obligations": len([o for o in obs if o.get("bounded")]),
            "bounded_standins_passed": len(bounded),
            "bounds": sorted(set(o["bounded"] for o in obs if o.get("bounded"))),
            "failed": len([o for o in obs if o["status"] == "failed"]),
            "undecided": len([o for o in obs if o["status"] == "undecided"]),
            "checker_cmd": "; ".join(sorted(set(r.get("checker_cmd", "") for r in results if r.get("checker_cmd")))),
            "trusted_base": trusted,
            "functions_under_contract": sorted(set(f for r in results for f in r.get("functions", []))),
            "units": [{"unit": r["unit"], "backend": r["backend"], "status": r["status"], "reason": r.get("reason", ""),
                       "wall_s": round(r.get("wall_s", 0), 2), "solver_s": round(r.get("solver_s", 0), 3),
                       "canaries": r.get("canaries"), "covers": r.get("covers"), "sources": r.get("sources", []),
                       "reused_result_of_identical_inputs": r.get("reused_result_of_identical_inputs")} for r in results],
            "obligation_table": [{"name": o["name"], "unit": o["unit"], "function": o["fn"], "backend": o["backend"],
                                  "status": o["status"], "solver_s": o.get("solver_s", 0), "bounded": o.get("bounded"),
                                  "clause": o.get("clause", "")} for o in obs],
            "samples": [{"obligation": o["name"], "clause": o.get("clause", "")} for o in obs[:6]],
            "known_findings": known_lines,
            "known_finding_obligations": [{"name": o["name"], "status": o["status"], "clause": o.get("clause", "")} for o in kf_obs],
            "explanation": man.get("level_note", ""),
            "exhaustive": False,
        },
        "assumptions": sorted(set(a for u in units.values() for a in u.get("assumptions", []))) + ["trusted: " + t for t in trusted],
        "wall_s": round(time.time() - t0, 2),
        "violations": len(violations),
    }
    evdir = os.environ.get("VERIF_EVIDENCE_DIR", os.path.join(VERIF, "evidence"))   # (redirected only by the seeded-change trials)
    os.makedirs(evdir, exist_ok=True)
    json.dump(ev, open(os.path.join(evdir, prop + ".json"), "w"), indent=1)

    for r in results:
        print("unit %-14s %-5s %-9s obligations=%d discharged=%d failed=%d  %.1fs %s" % (
            r["unit"], r["backend"], r["status"], len([o for o in r["obligations"] if prop in o["props"]]),
            len([o for o in r["obligations"] if prop in o["props"] and o["status"] == "discharged"]),
            len([o for o in r["obligations"] if prop in o["props"] and o["status"] == "failed"]),
            r.get("wall_s", 0), r.get("reason", "")))
    for l in known_lines:
        print(l)
    if not os.environ.get("VERIF_KEEP"):
        shutil.rmtree(snap, ignore_errors=True)
        shutil.rmtree(os.path.join(work, "verus"), ignore_errors=True)
        shutil.rmtree(os.path.join(work, "kanix"), ignore_errors=True)
    if lines:
        for l in lines:
            print(l)
        return 1
    if undecided:
        for u, why in undecided:
            print("UNDECIDED property=%s unit=%s reason=%s" % (prop, u, why))
        return 2
    print("OK property=%s obligations=%d discharged=%d (%d unbounded, %d bounded stand-ins) wall=%.1fs" % (
        prop, len(obs), len(discharged), len(proved), len(bounded), time.time() - t0))
    return 0


def manifest_entry(prop):
    try:
        m = json.load(open(os.path.join(VERIF, "MANIFEST.json")))
        for c in m["checks"]:
            if c["property_id"] == prop:
                return c
    except Exception:
        pass
    return {}


def write_baseline():
    """Record, per property, the obligations discharged on the current (unchanged) tree."""
    units = load_units()
    props = sorted(set(p for u in units.values() for p in (u.get("properties", []) + u.get("safety_properties", []) + u.get("also_serves", []))))
    work = os.path.join(SCRATCH, "baseline")
    snap = os.path.join(work, "src")
    os.makedirs(work, exist_ok=True)
    snapshot(snap)
    only = [a for a in sys.argv[2:] if not a.startswith("-")]
    base = json.load(open(BASELINE)) if os.path.exists(BASELINE) else {}
    results = []
    for u in units.values():
        if only and u["name"] not in only:
            continue
        r = run_unit(u, snap, work, "thorough")
        print(u["name"], r["status"], r.get("reason", ""), len(r["obligations"]))
        results.append(r)
    touched = set(r["unit"] for r in results)
    # drop old entries of the re-run units, then add the discharged ones
    unit_of = base.get("_unit_of", {})
    tonly = set(n for n in base.get("_thorough_only", []) if unit_of.get(n) not in touched)
    for p in list(base):
        if p.startswith("_"):
            continue
        base[p] = [n for n in base[p] if unit_of.get(n) not in touched]
    for r in results:
        for o in r["obligations"]:
            if o["status"] == "discharged":
                for p in o["props"]:
                    base.setdefault(p, [])
                    if o["name"] not in base[p]:
                        base[p].append(o["name"])
                unit_of[o["name"]] = r["unit"]
                if o.get("tier") == "thorough":
                    tonly.add(o["name"])
                else:
                    tonly.discard(o["name"])
    for p in base:
        if not p.startswith("_"):
            base[p] = sorted(base[p])
    rw = base.get("_rw", {})
    for r in results:
        if r.get("rw_counts") is not None:
            rw[r["unit"]] = r["rw_counts"]
    base["_rw"] = rw
    base["_unit_of"] = dict(sorted(unit_of.items()))
    base["_thorough_only"] = sorted(tonly)
    tmp = BASELINE + ".tmp"
    json.dump(base, open(tmp, "w"), indent=1, sort_keys=True)
    os.replace(tmp, BASELINE)             # atomic: concurrent checks never see a half-written baseline
    shutil.rmtree(work, ignore_errors=True)


def main():
    args = sys.argv[1:]
    if not args:
        print(__doc__)
        return 2
    if args[0] == "--baseline":
        write_baseline()
        return 0
    if args[0] == "--replay":
        import replay as replay_mod
        return replay_mod.replay_file(args[1])
    prop = args[0]
    tier = os.environ.get("VERIF_TIER", "quick")
    if "--tier" in args:
        tier = args[args.index("--tier") + 1]
    seed = int(os.environ.get("VERIF_SEED", "0") or 0)
    return decide(prop, tier, seed)


if __name__ == "__main__":
    sys.exit(main())

#!/usr/bin/env python3
"""Cross-check spec/isa6502.json (the C01 oracle, written from the MOS 6502 instruction set) against
the 256-entry decode table of the emulator_6502 crate in the cargo registry.  Two independent
sources must agree on every documented (mnemonic, mode, opcode) row or setup fails."""
import glob, json, os, re, sys
HERE = os.path.dirname(os.path.abspath(__file__))
isa = json.load(open(os.path.join(HERE, "..", "spec", "isa6502.json")))["isa"]
cands = glob.glob(os.path.expanduser("~/.cargo/registry/src/*/emulator_6502-*/src/opcodes/mod.rs"))
if not cands:
    print("isa_crosscheck: emulator_6502 source not found in the cargo registry; table is NOT cross-checked", file=sys.stderr)
    sys.exit(1)
src = open(sorted(cands)[-1]).read()
tab = src[src.index("OPCODE_TABLE"):]
rows = re.findall(r'Instruction\s*\{\s*name:\s*"(\w+)",\s*function:\s*\w+,\s*address_mode:\s*(\w+),\s*cycles:\s*\d+,\s*\},?\s*//0x([0-9a-fA-F]{1,2})', tab)
assert len(rows) == 256, len(rows)
MODE = {"implied": "imp", "accumulator": "imp", "immediate": "imm", "zero_page": "zp", "zero_page_x": "zpx", "zero_page_y": "zpy",
        "absolute": "abs", "absolute_x": "absx", "absolute_y": "absy", "absolute_x_const": "absx", "absolute_y_const": "absy",
        "indirect": "ind", "indirect_x": "indx", "indirect_y": "indy", "indirect_y_const": "indy", "relative": "rel"}
emu = {}
for name, mode, op in rows:
    if name in isa and mode in MODE:
        emu.setdefault(name, {}).setdefault(MODE[mode], []).append(int(op, 16))
bad = 0
n = 0
for m, row in isa.items():
    for mode, op in row.items():
        n += 1
        if op not in emu.get(m, {}).get(mode, []):
            print("MISMATCH %s %s: table says %02x, emulator has %s" % (m, mode, op, emu.get(m, {}).get(mode)))
            bad += 1
# rows the emulator has for documented mnemonics that the table lacks (undocumented variants are expected: NOPs, SBC #$EB)
extra = []
for m, modes in emu.items():
    for mode, ops in modes.items():
        for op in ops:
            if isa[m].get(mode) != op:
                extra.append((m, mode, "%02x" % op))
allowed_extra = [e for e in extra if e[0] == "nop" or e == ("sbc", "imm", "eb")]
if len(allowed_extra) != len(extra):
    print("UNEXPECTED extra emulator rows:", [e for e in extra if e not in allowed_extra])
    bad += 1
print("isa_crosscheck: %d rows checked against emulator_6502, %d mismatches, %d undocumented emulator variants ignored" % (n, bad, len(allowed_extra)))
sys.exit(1 if bad or n != 151 else 0)

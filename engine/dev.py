#!/usr/bin/env python3
"""developer helper: run one unit against a tree and print the obligation table"""
import sys, json, os
sys.path.insert(0, os.path.dirname(os.path.abspath(__file__)))
import verus_be, kanix_be
name = sys.argv[1]
pos = [a for a in sys.argv[2:] if not a.startswith("-")]
root = pos[0] if pos else "/repo"
d = os.environ.get("VERIF_CONTRACTS", "/verif/contracts") + "/" + name
u = json.load(open(d + "/unit.json")); u["dir"] = d; u["name"] = name
r = verus_be.run_unit(u, root, "/var/tmp/vp/w") if u["backend"] == "verus" else kanix_be.run_unit(u, root, "/var/tmp/vp/w", "thorough" if "-t" in sys.argv else "quick")
print(r["status"], r["reason"]); print(r.get("detail", "")[:6000])
for o in r["obligations"]:
    if o["status"] != "discharged" or "-v" in sys.argv:
        print(o["status"], o["name"], o.get("reasons"), o["solver_s"], o.get("counterexample"))
        if "-d" in sys.argv: print(o.get("detail", ""))
print(len(r["obligations"]), "obligations;", sum(o["status"] == "discharged" for o in r["obligations"]), "discharged;", r.get("canaries"), "%.1fs" % r["wall_s"])

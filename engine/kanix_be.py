"""Kani on mechanically extracted text (Mode F/S with a bit-precise back end, DESIGN §2.1).

The unit template (`unit.krs`) is expanded by vgen exactly like a Verus template, but into a
plain Rust file: extracted functions/slices verbatim (plus the unit's rewrite rules), harnesses
written in the template under `#[cfg(kani)]`.  `kani <file>` then checks it stand-alone, which
takes seconds where the in-place route (whole crate) takes minutes."""
import os
import re
import subprocess
import time

import vgen
import kani_be
from rsx import ExtractError


def run_unit(unit, snapshot, workdir, tier):
    name = unit["name"]
    res = {"unit": name, "backend": "kani", "status": "ok", "obligations": [], "functions": [], "trusted": list(unit.get("trusted", [])),
           "sources": [], "wall_s": 0.0, "reason": "", "covers": {}}
    t0 = time.time()
    g = vgen.Gen(snapshot, os.path.dirname(unit["dir"]))
    try:
        lines = g.expand(os.path.join(unit["dir"], unit.get("template", "unit.krs")))
    except ExtractError as e:
        res["status"] = "undecided"
        res["reason"] = "extraction: %s" % e
        return res
    os.makedirs(workdir, exist_ok=True)
    path = os.path.join(workdir, name.replace("-", "_") + ".rs")
    text = "\n".join(lines)
    open(path, "w").write(text)
    res["generated"] = path
    res["sources"] = sorted(g.sources)
    res["functions"] = ["%s:%d %s%s (%s, extracted)" % (it["file"], it["line"], (it["impl"] + " :: ") if it["impl"] else "", it["src_name"], it["kind"]) for it in g.items]
    for n, l in enumerate(lines, 1):
        code = l.split("//")[0]
        for t in ("kani::assume(", "kani::stub", "unsafe "):
            if t in code:
                res["trusted"].append("%s: %s" % (t, l.strip()[:140]))
    res["trusted"] = sorted(set(res["trusted"]))
    hs = kani_be.parse_harnesses(text)
    kani_be.collect_obs(text, hs)
    if kani_be.name_collisions(hs):
        res["status"] = "undecided"
        res["reason"] = "harness names collide under Kani's substring filter: %r" % (kani_be.name_collisions(hs)[:2],)
        return res
    sel = {}
    for h, info in hs.items():
        tiers = re.search(r"//\s*@tier\s+(\w+)", info["pre"])
        if tiers and tiers.group(1) == "thorough" and tier != "thorough":
            continue
        sel[h] = info
    if not sel:
        res["status"] = "undecided"
        res["reason"] = "no harness selected"
        return res
    jobs = int(unit.get("jobs", 8))
    cmd = ["kani", os.path.basename(path), "-Z", "function-contracts", "-Z", "stubbing", "--output-format", "terse", "-j", str(jobs)]
    cmd += list(unit.get("kani_flags", []))
    for h in sel:
        cmd += ["--harness", h]
    timeout = int(unit.get("timeout", 900))
    rc, o1, o2 = kani_be.run_killable(cmd, workdir, None, timeout)
    out = o1 + "\n" + o2
    open(path + ".log", "w").write(out)
    per = kani_be.split_output(out)
    res["_hs"] = sel
    res["checker_cmd"] = "kani <extracted %s.rs> -Z function-contracts -Z stubbing --output-format terse -j %d --harness <%d harnesses>" % (name, jobs, len(sel))
    kani_be.fill_unit(unit, res, per, rc, out, tier)
    res["solver_s"] = sum(b["time"] for b in per.values())
    # harnesses whose failure is a listed known finding are not replayed again on every run
    failed_h = sorted(set(o["harness"] for o in res["obligations"] if o["status"] == "failed" and o["harness"] not in unit.get("known_failing_harnesses", [])))
    for h in failed_h[:6]:
        tests = playback(path, h, workdir)
        for o in res["obligations"]:
            if o["harness"] == h and o["status"] == "failed":
                t = kani_be.pick_cex(tests, o["name"])
                o["counterexample"] = {"harness": h, "kani_any_values": t["values"] if t else None, "check": t["check"] if t else None,
                                       "native_replay": ({"how": "kani playback: the extracted code compiled for the host and run on these values", "test": t.get("test"),
                                                          "result": t.get("native_result"), "output": t.get("native_output")} if t else None),
                                       "vars": re.findall(r"let\s+(?:mut\s+)?(\w+)\s*(?::\s*[^=;]+)?=\s*kani::any", sel[h]["body"])}
    for h in failed_h[6:]:
        for o in res["obligations"]:
            if o["harness"] == h and o["status"] == "failed":
                o["counterexample"] = {"harness": h, "kani_any_values": None}
    res.pop("_hs", None)
    res["wall_s"] = time.time() - t0
    return res


def playback(path, h, workdir):
    """Counterexamples of one failed harness, replayed natively: Kani writes them into a copy of the
    extracted file as unit tests (concrete playback), `kani playback` compiles that copy for the host
    and runs them - the extracted real code executes on the verifier's values."""
    import shutil
    pb = path[:-3] + "_pb_" + h + ".rs"
    shutil.copy(path, pb)
    cmd = ["kani", os.path.basename(pb), "-Z", "function-contracts", "-Z", "stubbing", "-Z", "concrete-playback", "--concrete-playback=inplace",
           "--harness", h, "--output-format", "terse"]
    rc, o1, o2 = kani_be.run_killable(cmd, workdir, None, 600)
    if rc == 124:
        return None
    text = open(pb).read()
    tests = kani_be.parse_playback(text)
    names = re.findall(r"fn (kani_concrete_playback_\w+)\(\)", text)
    for t, n in zip(tests, names):
        t["test"] = n
    if not tests:
        return kani_be.parse_playback(o1)
    rc, o1, o2 = kani_be.run_killable(["kani", "playback", "-Z", "concrete-playback", os.path.basename(pb)], workdir, None, 300)
    out = o1 + "\n" + o2
    for t in tests:
        m = re.search(r"test \S*%s \.\.\. (\w+)" % re.escape(t.get("test", "?")), out)
        t["native_result"] = m.group(1) if m else "not run"
        pm = re.search(r"---- \S*%s stdout ----\n(.*?)\n(?:stack backtrace|note:|\n)" % re.escape(t.get("test", "?")), out, re.S)
        if pm:
            t["native_output"] = pm.group(1).strip()[:600]
    return tests

"""Verus back end: generate the unit file from the snapshot, run `verus`, map diagnostics to
named obligations, run the vacuity canaries."""
import json
import os
import re
import subprocess
import time

import vgen
from rsx import ExtractError

DECIDED_MSG = (
    "postcondition not satisfied", "precondition not satisfied", "assertion failed",
    "possible arithmetic underflow/overflow", "invariant not satisfied",
    "possible division by zero", "decreases not satisfied", "index out of bounds",
    "possible bit shift underflow/overflow", "recommendation not met",
    "unreachable", "possible truncation", "loop invariant not satisfied",
    "assertion failure", "requires not satisfied", "failed precondition",
    "cannot show invariant holds", "could not show termination", "might not be allowed",
)
RESOURCE_MSG = ("resource limit", "rlimit", "timed out", "timeout", "solver")


def run_verus(path, timeout):
    cmd = ["verus", os.path.basename(path), "--output-json", "--time", "--error-format=json",
           "--multiple-errors", "200"]
    t0 = time.time()
    try:
        p = subprocess.run(cmd, cwd=os.path.dirname(path), capture_output=True, text=True, timeout=timeout)
        out, err, rc = p.stdout, p.stderr, p.returncode
    except subprocess.TimeoutExpired as e:
        out, err, rc = (e.stdout or ""), (e.stderr or ""), 124
        if isinstance(out, bytes):
            out = out.decode("utf-8", "replace")
        if isinstance(err, bytes):
            err = err.decode("utf-8", "replace")
    dt = time.time() - t0
    diags = []
    for l in err.split("\n"):
        l = l.strip()
        if l.startswith("{"):
            try:
                d = json.loads(l)
            except Exception:
                continue
            if d.get("$message_type") == "diagnostic" or "message" in d:
                diags.append(d)
    try:
        res = json.loads(out[out.index("{"):]) if "{" in out else {}
    except Exception:
        res = {}
    return {"cmd": " ".join(cmd), "rc": rc, "diags": diags, "json": res, "stderr": err, "wall_s": dt}


def fn_times(res):
    t = {}
    try:
        for mod in res["times-ms"]["smt"]["smt-run-module-times"]:
            for f in mod.get("function-breakdown", []):
                t[f["function"].split("::", 1)[-1]] = t.get(f["function"].split("::", 1)[-1], 0) + f["time-micros"] / 1e6
    except Exception:
        pass
    return t


def enclosing_fn(lines, n, items=()):
    """name of the fn whose text contains generated line n (extracted items by range, else textual)."""
    for it in items:
        if it.get("gen_lo", 0) <= n <= it.get("gen_hi", -1):
            return it["name"]
    for k in range(n, 0, -1):
        m = re.match(r"\s*(?:pub\s+)?(?:open\s+|closed\s+)?(?:proof\s+|exec\s+|spec\s+)?fn\s+(\w+)", lines[k - 1])
        if m:
            return m.group(1)
    return "?"


def run_unit(unit, snapshot, workdir, timeout=600):
    """unit: dict from unit.json with 'dir'.  Returns result dict."""
    udir = unit["dir"]
    name = unit["name"]
    res = {"unit": name, "backend": "verus", "status": "ok", "obligations": [], "functions": [],
           "trusted": [], "sources": [], "wall_s": 0.0, "reason": ""}
    t0 = time.time()
    g = vgen.Gen(snapshot, os.path.dirname(udir))
    vgen.RW_COUNTS.clear()
    try:
        lines = g.expand(os.path.join(udir, unit.get("template", "unit.vrs")))
    except ExtractError as e:
        res["status"] = "undecided"
        res["reason"] = "extraction: %s" % e
        return res
    os.makedirs(workdir, exist_ok=True)
    path = os.path.join(workdir, name.replace("-", "_") + ".rs")
    open(path, "w").write("\n".join(lines))
    res["generated"] = path
    # rewrite-match counts per extracted item (item name -> {pattern: count}); compared with the baseline by the driver
    res["rw_counts"] = {}
    for it in g.items:
        key = "%s::%s" % (it["file"], it["src_name"])
        res["rw_counts"].setdefault(it["name"], {}).update({k: v for k, v in vgen.RW_COUNTS.get(key, {}).items()})
    res["sources"] = sorted(g.sources)
    res["functions"] = ["%s:%d %s%s (%s)" % (it["file"], it["line"], (it["impl"] + " :: ") if it["impl"] else "", it["src_name"], it["kind"]) for it in g.items]
    obs = vgen.obligations_in(lines)
    trusted = vgen.trusted_scan(lines)
    res["trusted"] = sorted(set("%s: %s" % (t, txt[:140]) for _, t, txt in trusted))
    declared = unit.get("trusted_tokens")
    if declared is not None:
        counts = {}
        for _, t, _ in trusted:
            counts[t] = counts.get(t, 0) + 1
        for t, c in counts.items():
            if c > declared.get(t, 0):
                res["status"] = "undecided"
                res["reason"] = "trusted-token scan: %d x %s, declared %d" % (c, t, declared.get(t, 0))
                return res
    # std calls that Verus accepts without a (useful) specification and that no shim rewrite replaced: a proof that
    # fails in such a function is undecided, not a violation (the driver applies this)
    res["unspecified_calls"] = {}
    UNSPEC = re.compile(r"\.(extend|copy_from_slice|splice|resize|to_vec|fill|rotate_left|rotate_right|reverse|sort\w*|swap|append|split_off|dedup|extend_from_within)\s*\(")
    for it in g.items:
        if it.get("kind") == "impl":
            continue
        found = set()
        for ln in lines[it["gen_lo"] - 1:it["gen_hi"]]:
            code = ln.split("//")[0]
            if "shim_" in code:
                continue
            for m in UNSPEC.finditer(code):
                found.add(m.group(1))
        if found:
            res["unspecified_calls"][it["name"]] = sorted(found)
    # obligation table
    default_props = unit.get("properties", [])
    safety_props = unit.get("safety_properties", default_props)
    table = {}
    for n, (ob, props) in sorted(obs.items()):
        o = table.setdefault(ob, {"name": ob, "unit": name, "backend": "verus", "props": props or default_props,
                                  "fn": enclosing_fn(lines, n, g.items), "status": "discharged", "bounded": None,
                                  "clause": lines[n - 1].split("// @ob")[0].strip()[:200], "lines": []})
        o["lines"].append(n)
    for it in g.items:
        ob = "%s.%s.safety" % (name, it["name"])
        table[ob] = {"name": ob, "unit": name, "backend": "verus", "props": unit.get("safety_overrides", {}).get(it["name"], safety_props),
                     "fn": it["name"], "status": "discharged", "bounded": None,
                     "clause": "no overflow / out-of-bounds / violated callee precondition in the extracted body of %s" % it["name"], "lines": []}
    # run
    main = run_verus(path, timeout)
    res["checker_cmd"] = main["cmd"]
    res["verus_wall_s"] = main["wall_s"]
    vr = main["json"].get("verification-results", {})
    res["verified_fns"] = vr.get("verified", 0)
    times = fn_times(main["json"])
    res["fn_times"] = times
    res["solver_s"] = sum(times.values())
    failures = []
    hard_error = None
    for d in main["diags"]:
        if d.get("level") != "error":
            continue
        msg = d.get("message", "")
        if msg.startswith("aborting due to"):
            continue
        spans = d.get("spans", [])
        prim = [s for s in spans if s.get("is_primary")]
        decided = any(msg.startswith(m) or m in msg for m in DECIDED_MSG)
        resource = any(m in msg.lower() for m in RESOURCE_MSG)
        # tags
        tag = None
        for group in (prim, spans):
            for s in group:
                for n in range(s["line_start"], s["line_end"] + 1):
                    if n in obs:
                        tag = obs[n][0]
                        break
                if tag:
                    break
            if tag:
                break
        pl = prim[0]["line_start"] if prim else (spans[0]["line_start"] if spans else 0)
        fn = enclosing_fn(lines, pl, g.items) if pl else "?"
        if decided and not resource:
            if tag and "precondition" in msg and table.get(tag, {}).get("fn") != fn:
                # a caller failed to establish a tagged callee precondition: the caller's safety
                # obligation (or, for template-level callers, the tag itself)
                ob = "%s.%s.safety" % (name, fn)
                if ob not in table:
                    ob = tag
            elif tag:
                ob = tag
            else:
                ob = "%s.%s.safety" % (name, fn)
                if ob not in table:
                    # failure inside a template-level lemma or helper
                    ob = "%s.%s" % (name, fn)
                    table.setdefault(ob, {"name": ob, "unit": name, "backend": "verus", "props": default_props,
                                          "fn": fn, "status": "discharged", "bounded": None, "clause": "template item " + fn, "lines": []})
            failures.append((ob, msg, d.get("rendered", "")))
        else:
            if hard_error is None:
                hard_error = (msg, d.get("rendered", ""))
    if hard_error and (resource_like(hard_error[0]) or not failures):
        res["status"] = "undecided"
        res["reason"] = "verus: " + hard_error[0][:300]
        res["detail"] = hard_error[1][:4000]
    if main["rc"] == 124:
        res["status"] = "undecided"
        res["reason"] = "verus timed out after %ds" % timeout
    if main["rc"] != 0 and not failures and res["status"] == "ok":
        res["status"] = "undecided"
        res["reason"] = "verus exit %d without a mapped diagnostic" % main["rc"]
        res["detail"] = main["stderr"][-3000:]
    if main["rc"] == 0 and not vr.get("success", False):
        res["status"] = "undecided"
        res["reason"] = "verus reported no success flag"
    for ob, msg, rendered in failures:
        o = table[ob]
        o["status"] = "failed"
        o.setdefault("reasons", []).append(msg)
        o["detail"] = (o.get("detail", "") + rendered)[:6000]
    if res["status"] != "ok":
        for o in table.values():
            if o["status"] == "discharged":
                o["status"] = "undecided"
    for o in table.values():
        o["solver_s"] = round(sum(v for k, v in times.items() if ("." + k.replace("::", ".")).endswith("." + o["fn"])), 4)
    res["obligations"] = list(table.values())
    # vacuity canaries: every extracted body must be reachable under its requires
    if res["status"] == "ok" and g.items:
        clines = list(lines)
        canary_lines = {}
        for it in g.items:
            # body opens at the first line that is exactly "{" after the contract
            k = it["gen_lo"]
            while k <= it["gen_hi"] and clines[k - 1].strip() != "{":
                k += 1
            clines[k - 1] = "{ assert(false); // @canary " + it["name"]
            canary_lines[k] = it["name"]
        cpath = path[:-3] + "_canary.rs"
        open(cpath, "w").write("\n".join(clines))
        can = run_verus(cpath, timeout)
        hit = set()
        for d in can["diags"]:
            if d.get("level") == "error" and "assertion failed" in d.get("message", ""):
                for s in d.get("spans", []):
                    if s["line_start"] in canary_lines:
                        hit.add(canary_lines[s["line_start"]])
        missing = [n for n in canary_lines.values() if n not in hit]
        res["canaries"] = {"expected_to_fail": len(canary_lines), "failed_as_expected": len(hit)}
        res["canary_wall_s"] = can["wall_s"]
        if missing:
            res["status"] = "undecided"
            res["reason"] = "vacuity: canary assert(false) verified in %s (contradictory precondition?)" % ",".join(missing)
            for o in res["obligations"]:
                if o["status"] == "discharged":
                    o["status"] = "undecided"
    if not res["obligations"]:
        res["status"] = "undecided"
        res["reason"] = "no obligations generated"
    exp = unit.get("expected_obligations")
    if exp is not None and res["status"] == "ok" and len(res["obligations"]) != exp:
        res["status"] = "undecided"
        res["reason"] = "obligation count %d differs from the %d recorded in unit.json" % (len(res["obligations"]), exp)
    res["wall_s"] = time.time() - t0
    return res


def resource_like(msg):
    return any(m in msg.lower() for m in RESOURCE_MSG)

#[cfg(kani)]
mod __verif_pcops {
    use super::*;
    // the operators derive_more generates for ProgramCounter, compared with the bodies the extracted units write out
    #[kani::proof]
    fn derive_more_ops_agree() {
        let v: usize = kani::any();
        let pc: ProgramCounter = v.into();                       // derive_more::From<usize>
        assert!(pc.as_usize() == v, "ob:pcops.from_usize_is_identity");
        let back: usize = pc.into();                              // derive_more::Into<usize>
        assert!(back == v, "ob:pcops.into_usize_is_identity");
        assert!(*pc == v, "ob:pcops.deref_is_field");
        let w: usize = kani::any();
        kani::assume(v <= 0x10000 && w <= 0x10000);
        assert!((ProgramCounter::new(v) + ProgramCounter::new(w)).as_usize() == v + w, "ob:pcops.add_pc");
        assert!((ProgramCounter::new(v) + w).as_usize() == v + w, "ob:pcops.add_usize");
        if w <= v { assert!((ProgramCounter::new(v) - ProgramCounter::new(w)).as_usize() == v - w, "ob:pcops.sub_pc"); }
        assert!(ProgramCounter::new(v) == ProgramCounter::new(v) && (ProgramCounter::new(v) < ProgramCounter::new(w)) == (v < w), "ob:pcops.ordering_is_field_ordering");
        kani::cover!(v == 0x1000 && w == 2, "cover:reach");
    }
}

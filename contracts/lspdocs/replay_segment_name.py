import sys, os, tempfile, time
sys.path.insert(0, os.path.dirname(os.path.abspath(__file__)))
from lspdrv import Server
mos = sys.argv[1]
d = tempfile.mkdtemp()
open(os.path.join(d, "mos.toml"), "w").write('[build]\nentry = "main.asm"\n')
src = '.define segment {\n  name = "a"\n  start = $2000\n}\n.segment "a.b" { nop }\n'
open(os.path.join(d, "main.asm"), "w").write(src)
s = Server(mos, d)
s.open("main.asm", src)
time.sleep(0.5)
print("alive after open:", s.alive())
r = s.request("textDocument/documentSymbol", s.doc("main.asm"))
print("documentSymbol:", str(r)[:200])
print("alive after documentSymbol:", s.alive())
s.stop()

"""Minimal LSP stdio client for driving `mos lsp`."""
import json, os, subprocess, threading, queue, time


class Server:
    def __init__(self, mos, cwd):
        self.p = subprocess.Popen([mos, "lsp"], cwd=cwd, stdin=subprocess.PIPE,
                                  stdout=subprocess.PIPE, stderr=subprocess.DEVNULL)
        self.cwd = cwd
        self.q = queue.Queue()
        self.next_id = 1
        self.diags = {}      # uri -> last published diagnostics
        self.dead = False
        self.t = threading.Thread(target=self._reader, daemon=True)
        self.t.start()
        self.request("initialize", {"processId": None, "rootUri": None, "capabilities": {}})
        self.notify("initialized", {})

    def _reader(self):
        f = self.p.stdout
        while True:
            hdr = {}
            while True:
                line = f.readline()
                if not line:
                    self.q.put(None)
                    return
                line = line.strip()
                if not line:
                    break
                k, v = line.split(b":", 1)
                hdr[k.strip().lower()] = v.strip()
            n = int(hdr[b"content-length"])
            body = f.read(n)
            self.q.put(json.loads(body))

    def _send(self, msg):
        data = json.dumps(msg).encode()
        try:
            self.p.stdin.write(b"Content-Length: %d\r\n\r\n" % len(data) + data)
            self.p.stdin.flush()
        except (BrokenPipeError, OSError):
            pass

    def notify(self, method, params):
        self._send({"jsonrpc": "2.0", "method": method, "params": params})

    def request(self, method, params, timeout=20):
        """Returns ("ok", result) | ("error", err) | ("dead", None) | ("timeout", None)"""
        if self.dead:
            return ("dead", None)
        rid = self.next_id
        self.next_id += 1
        self._send({"jsonrpc": "2.0", "id": rid, "method": method, "params": params})
        deadline = time.time() + timeout
        while True:
            try:
                msg = self.q.get(timeout=max(0.01, deadline - time.time()))
            except queue.Empty:
                return ("timeout", None)
            if msg is None:
                self.dead = True
                return ("dead", None)
            if "id" in msg and msg.get("id") == rid and "method" not in msg:
                if "error" in msg:
                    return ("error", msg["error"])
                return ("ok", msg.get("result"))
            if msg.get("method") == "textDocument/publishDiagnostics":
                self.diags[msg["params"]["uri"]] = msg["params"]["diagnostics"]

    def uri(self, name):
        return "file://" + os.path.join(self.cwd, name)

    def open(self, name, text, version=1):
        self.notify("textDocument/didOpen", {"textDocument": {
            "uri": self.uri(name), "languageId": "asm", "version": version, "text": text}})

    def change(self, name, text, version):
        self.notify("textDocument/didChange", {
            "textDocument": {"uri": self.uri(name), "version": version},
            "contentChanges": [{"text": text}]})

    def close(self, name):
        self.notify("textDocument/didClose", {"textDocument": {"uri": self.uri(name)}})

    def doc(self, name):
        return {"textDocument": {"uri": self.uri(name)}}

    def pos(self, name, line, ch):
        return {"textDocument": {"uri": self.uri(name)}, "position": {"line": line, "character": ch}}

    def alive(self):
        return self.p.poll() is None

    def stop(self):
        try:
            self.request("shutdown", None, timeout=5)
            self.notify("exit", None)
            self.p.wait(timeout=5)
        except Exception:
            pass
        if self.p.poll() is None:
            self.p.kill()

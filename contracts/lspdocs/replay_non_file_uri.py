import sys, os, tempfile, time
sys.path.insert(0, os.path.dirname(os.path.abspath(__file__)))
from lspdrv import Server
mos = sys.argv[1]
d = tempfile.mkdtemp()
open(os.path.join(d, "mos.toml"), "w").write('[build]\nentry = "main.asm"\n')
open(os.path.join(d, "main.asm"), "w").write("start: nop\n")
s = Server(mos, d)
s.open("main.asm", "start: nop\n")
time.sleep(0.3)
print("alive after open:", s.alive())
# an unsaved editor buffer: VS Code names it with the `untitled:` scheme
s.notify("textDocument/didOpen", {"textDocument": {"uri": "untitled:Untitled-1", "languageId": "asm", "version": 1, "text": "nop\n"}})
time.sleep(1.0)
print("alive after didOpen of untitled:Untitled-1:", s.alive())
s.stop()

import sys, os, tempfile, time
sys.path.insert(0, os.path.dirname(os.path.abspath(__file__)))
from lspdrv import Server
mos = sys.argv[1]
d = tempfile.mkdtemp()
open(os.path.join(d, "mos.toml"), "w").write('[build]\nentry = "main.asm"\n')
open(os.path.join(d, "main.asm"), "w").write("start: nop\n")
s = Server(mos, d)
s.open("main.asm", "start: nop\n")
print("alive after open:", s.alive())
# (a) a didChange with an empty contentChanges array
s.notify("textDocument/didChange", {"textDocument": {"uri": s.uri("main.asm"), "version": 2}, "contentChanges": []})
time.sleep(1.0)
print("alive after empty change:", s.alive())
if s.alive():
    # (b) two full-text changes in one notification: the final buffer is the LAST one
    s.notify("textDocument/didChange", {"textDocument": {"uri": s.uri("main.asm"), "version": 3}, "contentChanges": [{"text": "first: nop\n"}, {"text": "second: nop\n"}]})
    time.sleep(0.5)
    r = s.request("textDocument/documentSymbol", s.doc("main.asm"))
    print("symbols after [first, second]:", r)
s.stop()

#!/usr/bin/env python3
"""Generate the in-place Kani harness module for `get_opcode_bytes` from spec/isa6502.json.

One harness per mnemonic; each unrolls the 15 syntactic forms (AddressingMode x suffix)
concretely and leaves the operand `v: i64` fully symbolic.  Expectations come from the ISA
table (written from the instruction set, cross-checked against emulator_6502 at setup time),
never from the code under test."""
import json, os
HERE = os.path.dirname(os.path.abspath(__file__))
isa = json.load(open(os.path.join(HERE, "..", "..", "spec", "isa6502.json")))["isa"]

FORMS = [  # (AM, suffix, imp key, short key(s), long key)
    ("Implied", None, "imp", None, None),
    ("Implied", "X", None, None, None),
    ("Implied", "Y", None, None, None),
    ("Immediate", None, None, "imm", None),
    ("Immediate", "X", None, None, None),
    ("Immediate", "Y", None, None, None),
    ("AbsoluteOrZp", None, None, "zp|rel", "abs"),
    ("AbsoluteOrZp", "X", None, "zpx", "absx"),
    ("AbsoluteOrZp", "Y", None, "zpy", "absy"),
    ("Indirect", None, None, None, None),
    ("Indirect", "X", None, "indx", None),
    ("Indirect", "Y", None, None, None),
    ("OuterIndirect", None, None, None, "ind"),
    ("OuterIndirect", "X", None, None, None),
    ("OuterIndirect", "Y", None, "indy", None),
]

def opt(x):
    return "None" if x is None else "Some(0x%02x)" % x

print("""
#[cfg(kani)]
mod __verif_opcodes {
    use super::*;
    use crate::parser::{AddressingMode as AM, IndexRegister as IR, Mnemonic as M};

    // expectation for one (mnemonic, form): imp = 1-byte opcode, short = opcode with a 1-byte operand
    // (zp / zp,x / zp,y / imm / (ind,x) / (ind),y / rel), long = opcode with a 2-byte operand
    #[inline(never)]
    fn chk(m: M, am: AM, s: Option<IR>, v: i64, imp: Option<u8>, short: Option<u8>, long: Option<u8>) {
        let got = get_opcode_bytes(m, am, s, v);
        if let Some(o) = imp {
            // implied / accumulator: exactly the opcode, for every operand value
            let ok = match &got { Ok(b) => b.len() == 1 && b[0] == o, Err(_) => false };
            assert!(ok, "ob:opc.implied_bytes");
            return;
        }
        if short.is_none() && long.is_none() {
            // a combination the ISA does not define: rejected for EVERY operand value
            assert!(got.is_err(), "ob:opc.illegal_rejected");
            return;
        }
        if long.is_none() && v > 255 {
            // immediate / zp,y of STX / (ind,x) / (ind),y / relative: nothing above 255 is encodable
            assert!(got.is_err(), "ob:opc.short_only_gt_255_rejected");
            return;
        }
        if v < 0 || v > 65535 {
            return; // the property names no expectation here (and the suite pins wrap-around)
        }
        if v <= 255 {
            if let Some(o) = short {
                let ok = match &got { Ok(b) => b.len() == 2 && b[0] == o && b[1] == v as u8, Err(_) => false };
                assert!(ok, "ob:opc.zero_page_form_iff_0_255");
                return;
            }
        }
        match long {
            Some(o) => {
                let ok = match &got { Ok(b) => b.len() == 3 && b[0] == o && b[1] == (v & 255) as u8 && b[2] == (v >> 8) as u8, Err(_) => false };
                assert!(ok, "ob:opc.absolute_form_little_endian");
            }
            None => assert!(got.is_err(), "ob:opc.short_only_gt_255_rejected"),
        }
    }
""")
for m in sorted(isa):
    row = isa[m]
    M = m.capitalize()
    print("    #[kani::proof]\n    #[kani::unwind(4)]\n    fn opc_%s() {\n        let v: i64 = kani::any();" % m)
    used = set()
    for am, s, ik, sk, lk in FORMS:
        imp = row.get(ik) if ik else None
        short = None
        if sk:
            for k in sk.split("|"):
                if k in row:
                    short = row[k]; used.add(k)
        long_ = row.get(lk) if lk else None
        if ik and ik in row: used.add(ik)
        if lk and lk in row: used.add(lk)
        sfx = "None" if s is None else "Some(IR::%s)" % s
        print("        chk(M::%s, AM::%s, %s, v, %s, %s, %s);" % (M, am, sfx, opt(imp), opt(short), opt(long_)))
    assert used == set(row), (m, used, set(row))
    print('        kani::cover!(v == 300, "cover:reach_%s");' % m)
    print("    }")
print("}")

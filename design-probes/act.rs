use vstd::prelude::*;
verus! {
#[derive(Clone, Copy)]
pub struct ProgramCounter(pub usize);
impl ProgramCounter {
    pub fn as_u16(&self) -> (r: u16) ensures r == (self.0 & 0xffff) as u16 { 
        let x = self.0;
        proof { assert((x as u16) == (x & 0xffff) as u16) by(bit_vector); }
        x as u16 }
}
pub struct SymbolSnapshot { pub pc: ProgramCounter }
pub struct Assertion { pub snapshot: SymbolSnapshot, pub id: u64 }
pub struct Trace { pub snapshot: SymbolSnapshot, pub id: u64 }
pub enum TestElement { Assertion(Assertion), Trace(Trace) }

pub open spec fn el_pc(e: TestElement) -> u16 {
    match e { TestElement::Assertion(a) => (a.snapshot.pc.0 & 0xffff) as u16, TestElement::Trace(t) => (t.snapshot.pc.0 & 0xffff) as u16 }
}
pub open spec fn is_assert(e: TestElement) -> bool { e is Assertion }

// slice of TestRunner::execute_instruction: the activation loop.
// parameters: test_elements <- self.test_elements, cpu_pc <- self.cpu.get_program_counter()
fn slice_activate(test_elements: &mut Vec<TestElement>, cpu_pc: u16) -> (res: (Vec<Trace>, Vec<Assertion>))
    ensures
        // kept elements: exactly those with a different pc, in order
        final(test_elements)@ == old(test_elements)@.filter(|e: TestElement| el_pc(e) != cpu_pc),
        // activated count
        res.0@.len() + res.1@.len() == old(test_elements)@.filter(|e: TestElement| el_pc(e) == cpu_pc).len(),
{
        let mut active_traces = vec![];
        let mut active_assertions = vec![];
        let mut idx = 0;
        let ghost orig = test_elements@;
        while idx < test_elements.len()
            invariant
                idx <= test_elements@.len(),
                exists|k: int| 0 <= k <= orig.len() && #[trigger] orig.subrange(k, orig.len() as int) == test_elements@.subrange(idx as int, test_elements@.len() as int)
                    && test_elements@.subrange(0, idx as int) == orig.subrange(0, k).filter(|e: TestElement| el_pc(e) != cpu_pc)
                    && active_traces@.len() + active_assertions@.len() == orig.subrange(0, k).filter(|e: TestElement| el_pc(e) == cpu_pc).len(),
            decreases test_elements@.len() - idx,
        {
            let should_remove = match &test_elements[idx] {
                TestElement::Assertion(e) => {
                    e.snapshot.pc.as_u16() == cpu_pc
                }
                TestElement::Trace(e) => e.snapshot.pc.as_u16() == cpu_pc,
            };

            if should_remove {
                match test_elements.remove(idx) {
                    TestElement::Assertion(a) => {
                        active_assertions.push(a);
                    }
                    TestElement::Trace(t) => {
                        active_traces.push(t);
                    }
                }
            } else {
                idx += 1;
            }
        }
        (active_traces, active_assertions)
}
}
fn main() {}

use vstd::prelude::*;
use std::ops::Range;
use std::cmp::{max, min};
use vstd::std_specs::cmp::{OrdSpec, PartialOrdSpec, PartialOrdIs};
verus! {

// ---- assumed contracts on std (trusted) ----
pub assume_specification<T: Ord> [std::cmp::min::<T>] (a: T, b: T) -> (r: T)
    ensures T::obeys_cmp_spec() ==> r == if a.is_le(&b) { a } else { b };
pub assume_specification<T: Ord> [std::cmp::max::<T>] (a: T, b: T) -> (r: T)
    ensures T::obeys_cmp_spec() ==> r == if a.is_gt(&b) { a } else { b };
pub assume_specification<Idx> [std::ops::Range::<Idx>::is_empty] (r: &Range<Idx>) -> (b: bool)
    where Idx: PartialOrd + PartialOrd,
    ensures Idx::obeys_partial_cmp_spec() ==> b == !(r.start.is_lt(&r.end));

// ---- shims introduced by the rewrite table (trusted) ----
#[verifier::external_body]
fn shim_range_len(r: &Range<usize>) -> (n: usize)
    ensures n == if r.start <= r.end { r.end - r.start } else { 0 }
{ r.len() }

#[verifier::external_body]
fn shim_extend_ref(v: &mut Vec<u8>, w: &Vec<u8>)
    ensures final(v)@ == old(v)@ + w@
{ v.extend(w) }

#[verifier::external_body]
fn shim_extend_vec(v: &mut Vec<u8>, w: Vec<u8>)
    ensures final(v)@ == old(v)@ + w@
{ v.extend(w) }

#[verifier::external_body]
fn shim_copy_into_range(v: &mut Vec<u8>, r: Range<usize>, s: &[u8])
    requires r.start <= r.end <= old(v).len(), s@.len() == r.end - r.start
    ensures final(v)@ == old(v)@.subrange(0, r.start as int) + s@ + old(v)@.subrange(r.end as int, old(v).len() as int)
{ v[r].copy_from_slice(s) }

pub struct BankOptions {
    pub size: Option<usize>,
    pub fill: Option<u8>,
}

pub struct Bank {
    pub range: Range<usize>,
    pub data: Vec<u8>,
    pub options: BankOptions,
}

pub struct Segment {
    pub data: Vec<u8>,
    pub range: Range<usize>,
}

impl Segment {
    pub open spec fn wf(&self) -> bool {
        self.range.start <= self.range.end && (self.data.len() == 0 ==> self.range.start == self.range.end)
        && (self.data.len() != 0 ==> self.range.end <= self.data.len())
    }
    pub open spec fn bytes(&self) -> Seq<u8> {
        if self.data.len() == 0 { Seq::empty() } else { self.data@.subrange(self.range.start as int, self.range.end as int) }
    }
    #[verifier::external_body]
    pub fn range(&self) -> (r: Range<usize>)
        ensures r == self.range
    {
        self.range.clone()
    }
    #[verifier::external_body]
    pub fn range_data(&self) -> (r: &[u8])
        requires self.wf()
        ensures r@ == self.bytes()
    {
        unimplemented!()
    }
}

impl Bank {
    pub open spec fn wf(&self) -> bool {
        self.range.start <= self.range.end && self.data.len() == self.range.end - self.range.start
    }
    pub open spec fn fillv(&self) -> u8 { match self.options.fill { Some(f) => f, None => 0 } }
    // abstract view: byte at absolute address a (for a in range)
    pub open spec fn at(&self, a: int) -> u8 { self.data@[a - self.range.start] }

    pub fn merge(&mut self, segment: &Segment)
        requires old(self).wf(), segment.wf(), segment.range.start < segment.range.end,
        ensures
            final(self).wf(),
            final(self).options == old(self).options,
            // hull
            old(self).range.start < old(self).range.end ==> final(self).range.start == (if old(self).range.start <= segment.range.start { old(self).range.start } else { segment.range.start }),
            old(self).range.start < old(self).range.end ==> final(self).range.end == (if old(self).range.end >= segment.range.end { old(self).range.end } else { segment.range.end }),
            !(old(self).range.start < old(self).range.end) ==> final(self).range == segment.range,
            // content
            forall|a: int| final(self).range.start <= a < final(self).range.end ==> #[trigger] final(self).at(a) ==
                (if segment.range.start <= a < segment.range.end { segment.data@[a] }
                 else if old(self).range.start <= a < old(self).range.end { old(self).at(a) }
                 else { old(self).fillv() }),
    {
        self.range = if self.range.is_empty() {
            let new_range = segment.range();
            self.data = vec![self.options.fill.unwrap_or_default(); shim_range_len(&new_range)];
            new_range
        } else {
            let new_range = Range {
                start: min(self.range.start, segment.range().start),
                end: max(self.range.end, segment.range().end),
            };

            if new_range.start < self.range.start {
                let mut data =
                    vec![self.options.fill.unwrap_or_default(); self.range.start - new_range.start];
                shim_extend_ref(&mut data, &self.data);
                self.data = data;
            }
            if new_range.end > self.range.end {
                shim_extend_vec(&mut self.data, vec![
                    self.options.fill.unwrap_or_default();
                    new_range.end - self.range.end
                ]);
            }

            new_range
        };

        let mut seg_rng = segment.range();
        seg_rng.start -= self.range.start;
        seg_rng.end -= self.range.start;
        shim_copy_into_range(&mut self.data, seg_rng, segment.range_data());
    }
}

} // verus!
fn main() {}

use vstd::prelude::*;
use std::ops::Range;
verus! {

// ===== extracted verbatim from program_counter.rs (derives dropped; derive_more Add/Deref/From expanded by shims below) =====
#[derive(Clone, Copy)]
pub struct ProgramCounter(pub usize);

impl ProgramCounter {
    pub fn new(pc: usize) -> (r: Self) ensures r.0 == pc {
        Self(pc)
    }
    pub fn as_usize(&self) -> (r: usize) ensures r == self.0 {
        self.0
    }
    pub fn as_i64(&self) -> (r: i64) ensures r == self.0 as i64 {
        self.0 as i64
    }
    pub fn as_empty_range(&self) -> (r: Range<usize>) ensures r.start == self.0, r.end == self.0 {
        self.0..self.0
    }
    // shim for `impl Add<usize> for ProgramCounter` (operator `pc + n` rewritten to pc.add_usize(n))
    pub fn add_usize(self, rhs: usize) -> (r: Self)
        requires self.0 + rhs <= usize::MAX
        ensures r.0 == self.0 + rhs
    {
        Self(self.0 + rhs)
    }
}

#[verifier::external_body]
fn shim_vec_zeroed_64k() -> (v: Vec<u8>)
    ensures v@.len() == 65536, forall|i: int| 0 <= i < 65536 ==> v@[i] == 0
{ [0u8; 65536].into() }

#[verifier::external_body]
fn shim_splice_same_len(v: &mut Vec<u8>, start: usize, end: usize, bytes: &[u8])
    requires start <= end <= old(v).len(), bytes@.len() == end - start
    ensures final(v)@ == old(v)@.subrange(0, start as int) + bytes@ + old(v)@.subrange(end as int, old(v).len() as int)
{ v.splice(start..end, bytes.to_vec()); }

pub struct SegmentOptions {
    pub initial_pc: ProgramCounter,
    pub write: bool,
    pub target_address: ProgramCounter,
}

pub struct Segment {
    pub pc: ProgramCounter,
    pub data: Vec<u8>,
    pub range: Range<usize>,
    pub options: SegmentOptions,
}

impl Segment {
    pub open spec fn wf(&self) -> bool {
        &&& (self.data.len() == 0 || self.data.len() == 65536)
        &&& self.range.start <= self.range.end
        &&& (self.data.len() == 65536 ==> self.range.end <= 65536)
    }

    pub fn emit(&mut self, bytes: &[u8]) -> (ok: bool)
        requires old(self).wf(), old(self).pc.0 + bytes@.len() <= usize::MAX,
        ensures
            final(self).wf(),
            ok == (old(self).pc.0 <= 0xffff && old(self).pc.0 + bytes@.len() <= 0x10000),
            !ok ==> *final(self) == *old(self),
            ok ==> final(self).pc.0 == old(self).pc.0 + bytes@.len(),
            ok ==> final(self).data@.len() == 65536,
            ok ==> forall|i: int| 0 <= i < bytes@.len() ==> final(self).data@[old(self).pc.0 + i] == bytes@[i],
            ok ==> forall|a: int| 0 <= a < 65536 && !(old(self).pc.0 <= a < old(self).pc.0 + bytes@.len()) ==>
                final(self).data@[a] == (if old(self).data.len() == 0 { 0u8 } else { old(self).data@[a] }),
            ok && old(self).data.len() == 0 ==> final(self).range.start == old(self).pc.0 && final(self).range.end == old(self).pc.0 + bytes@.len(),
            ok && old(self).data.len() != 0 ==> final(self).range.start == (if old(self).pc.0 < old(self).range.start { old(self).pc.0 } else { old(self).range.start })
                && final(self).range.end == (if old(self).pc.0 + bytes@.len() > old(self).range.end { (old(self).pc.0 + bytes@.len()) as usize } else { old(self).range.end }),
            final(self).options == old(self).options,
    {
        let start = self.pc;
        let end = self.pc.add_usize(bytes.len());
        if start.as_usize() > 0xffff || end.as_usize() > 0x10000 {
            return false;
        }

        if start.as_usize() < self.range.start || self.data.is_empty() {
            self.range.start = start.as_usize();
        }
        if end.as_usize() > self.range.end || self.data.is_empty() {
            self.range.end = end.as_usize();
        }

        if self.data.is_empty() {
            self.data = shim_vec_zeroed_64k();
        }

        shim_splice_same_len(&mut self.data, start.as_usize(), end.as_usize(), bytes);
        self.pc = end;

        true
    }
}
}
fn main() {}

use vstd::prelude::*;
verus! {
fn d(a: i64, b: i64) -> (r: i64)
    requires b != 0, !(a == i64::MIN && b == -1)
{ a / b }
fn m(a: i64, b: i64) -> (r: i64)
    requires b != 0, !(a == i64::MIN && b == -1)
{ a % b }
fn t1() { let r = d(-7, 2); assert(r == -3); }
fn t2() { let r = d(-7, 2); assert(r == -4); }
fn t3() { let r = m(-7, 2); assert(r == -1); }
fn t4() { let r = m(-7, 2); assert(r == 1); }
fn s1(a: i64, k: i64) -> (r: i64) requires 0 <= k < 32, 0 <= a < 0x8000_0000 ensures r == a * vstd::arithmetic::power2::pow2(k as nat) { 
  a << k }
fn s2(a: i64, k: i64) -> (r: i64) requires 0 <= k < 64 { a >> k }
fn s3(a: i64, k: i64) -> (r: i64) { a << k }
fn x1(a: i64, b: i64) -> (r: i64) ensures r == a ^ b { a ^ b }
}
fn main() {}

use vstd::prelude::*;
use std::ops::Range;
verus! {
pub struct Segment { pub data: Vec<u8>, pub range: Range<usize> }
impl Segment {
    pub open spec fn wf(&self) -> bool {
        self.range.start <= self.range.end && (self.data.len() == 0 ==> self.range.start == self.range.end)
        && (self.data.len() != 0 ==> self.range.end <= self.data.len())
    }
    pub open spec fn bytes(&self) -> Seq<u8> {
        if self.data.len() == 0 { Seq::empty() } else { self.data@.subrange(self.range.start as int, self.range.end as int) }
    }
    #[verifier::external_body]
    pub fn range(&self) -> (r: Range<usize>) ensures r == self.range { self.range.clone() }
    #[verifier::external_body]
    pub fn range_data(&self) -> (r: &[u8]) requires self.wf() ensures r@ == self.bytes() { unimplemented!() }
}
pub struct SourceMapOffset { pub pc: Range<usize> }

// slice of to_listing: body of `for segment in ctx.segments().values()`; `break` -> `return true`
fn slice_collect(segment: &Segment, offset: &SourceMapOffset, data: &mut Vec<(usize, u8)>) -> (hit: bool)
    requires segment.wf(), offset.pc.start <= offset.pc.end,
    ensures
        hit == (segment.range.start <= offset.pc.start && segment.range.end >= offset.pc.end),
        !hit ==> final(data)@ == old(data)@,
        hit ==> final(data)@.len() == old(data)@.len() + (offset.pc.end - offset.pc.start),
        hit ==> final(data)@.subrange(0, old(data)@.len() as int) == old(data)@,
        hit ==> forall|i: int| 0 <= i < offset.pc.end - offset.pc.start ==>
            #[trigger] final(data)@[old(data)@.len() + i] == ((offset.pc.start + i) as usize, segment.data@[offset.pc.start + i]),
{
                    if segment.range().start <= offset.pc.start
                        && segment.range().end >= offset.pc.end
                    {
                        let mut start = offset.pc.start - segment.range().start;
                        let end = start + (offset.pc.end - offset.pc.start);

                        let mut pc = offset.pc.start;
                        let ghost n0 = data@.len();
                        let ghost s0 = start;
                        while start < end
                            invariant
                                segment.wf(), s0 <= start <= end, end == s0 + (offset.pc.end - offset.pc.start),
                                s0 == offset.pc.start - segment.range.start,
                                segment.range.start <= offset.pc.start, segment.range.end >= offset.pc.end, offset.pc.start <= offset.pc.end,
                                pc == offset.pc.start + (start - s0),
                                data@.len() == n0 + (start - s0),
                                data@.subrange(0, n0 as int) == old(data)@, n0 == old(data)@.len(),
                                forall|i: int| 0 <= i < start - s0 ==> #[trigger] data@[n0 + i] == ((offset.pc.start + i) as usize, segment.data@[offset.pc.start + i]),
                            decreases end - start,
                        {
                            data.push((pc, segment.range_data()[start]));
                            start += 1;
                            pc += 1;
                        }
                        return true;
                    }
                    false
}
}
fn main() {}

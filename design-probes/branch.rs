use vstd::prelude::*;
verus! {
#[derive(Clone, Copy)]
pub struct ProgramCounter(pub usize);
impl ProgramCounter {
    pub fn as_i64(&self) -> (r: i64) ensures r == self.0 as i64 { self.0 as i64 }
    pub fn add_usize(self, rhs: usize) -> (r: Self) requires self.0 + rhs <= usize::MAX ensures r.0 == self.0 + rhs { Self(self.0 + rhs) }
    pub fn from_i64(val: i64) -> (r: Self) ensures r.0 == val as usize { Self(val as usize) }
}

// slice of emit_token, Token::Instruction arm, lines `let target_pc = value as i64;` .. end of the if/else chain
// free variables: value: i64, cur: Option<ProgramCounter> (= self.try_current_target_pc())
fn slice_branch(value: i64, cur: Option<ProgramCounter>) -> (res: Result<i64, ()>)
    requires
        cur is Some ==> cur.unwrap().0 <= 0x10000,
        cur is None ==> 0 <= value <= 0x10000,
    ensures
        cur is Some ==> ({
            let d = value - (cur.unwrap().0 + 2);
            (-128 <= d <= 127 ==> res == Ok::<i64, ()>((if d < 0 { d + 256 } else { d }) as i64))
            && (!(-128 <= d <= 127) ==> res is Err)
        }),
{
                            let target_pc = value as i64;
                            // If the current PC cannot be determined we'll just default to the target_pc. This will be fixed up later
                            // when the instruction is re-emitted.
                            let cur_pc = (match cur { Some(c) => c, None => ProgramCounter::from_i64(target_pc) }
                                .add_usize(2))
                            .as_i64();
                            let mut offset = target_pc - cur_pc;
                            if -128 <= offset && offset <= 127 {
                                if offset < 0 {
                                    offset += 256;
                                }
                                Ok(offset as i64)
                            } else if target_pc == 0 {
                                // We probably couldn't determine the target_pc, so let's ignore the error for now.
                                // We'll just return a dummy offset. This instruction will be re-emitted in a next pass anyway.
                                Ok(0)
                            } else {
                                return Err(());
                            }
}
}
fn main() {}

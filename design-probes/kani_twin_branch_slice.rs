#[derive(Clone, Copy)]
pub struct ProgramCounter(pub usize);
impl ProgramCounter {
    pub fn as_i64(&self) -> i64 { self.0 as i64 }
}
impl std::ops::Add<usize> for ProgramCounter { type Output = ProgramCounter; fn add(self, rhs: usize) -> Self { Self(self.0 + rhs) } }
impl From<i64> for ProgramCounter { fn from(v: i64) -> Self { Self(v as usize) } }

fn slice_branch(value: i64, cur: Option<ProgramCounter>) -> Result<i64, ()> {
    let target_pc = value as i64;
    let cur_pc = (cur.unwrap_or_else(|| target_pc.into()) + 2).as_i64();
    let mut offset = target_pc - cur_pc;
    if (-128..=127).contains(&offset) {
        if offset < 0 { offset += 256; }
        Ok(offset as i64)
    } else if target_pc == 0 {
        Ok(0)
    } else {
        return Err(());
    }
}

#[cfg(kani)]
mod p {
    use super::*;
    #[kani::proof]
    fn br_out_of_range_rejected() {
        let value: i64 = kani::any();
        let p: usize = kani::any();
        kani::assume(p <= 0xffff);
        kani::assume(value > -100000 && value < 100000);
        let d = value - (p as i64 + 2);
        let r = slice_branch(value, Some(ProgramCounter(p)));
        if !(d >= -128 && d <= 127) { assert!(r.is_err(), "br.out_of_range_rejected"); }
    }
}

use vstd::prelude::*;
verus! {
pub enum BinaryOp { Add, Sub, Mul, Div, Mod, Shl, Shr, Xor, Eq, Ne, Gt, GtEq, Lt, LtEq, And, Or }

pub open spec fn b2i(b: bool) -> int { if b { 1 } else { 0 } }

pub open spec fn spec_apply(op: BinaryOp, l: int, r: int) -> int {
    match op {
        BinaryOp::Add => l + r,
        BinaryOp::Sub => l - r,
        BinaryOp::Mul => l * r,
        BinaryOp::Eq => b2i(l == r),
        BinaryOp::Ne => b2i(l != r),
        BinaryOp::Gt => b2i(l > r),
        BinaryOp::GtEq => b2i(l >= r),
        BinaryOp::Lt => b2i(l < r),
        BinaryOp::LtEq => b2i(l <= r),
        BinaryOp::And => b2i(l != 0 && r != 0),
        BinaryOp::Or => b2i(l != 0 || r != 0),
        _ => 0,
    }
}

impl BinaryOp {
    fn apply_i64(&self, lhs: i64, rhs: i64) -> (res: i64)
        requires
            i64::MIN <= spec_apply(*self, lhs as int, rhs as int) <= i64::MAX,
            (*self is Div || *self is Mod) ==> rhs != 0 && !(lhs == i64::MIN && rhs == -1),
            (*self is Shl || *self is Shr) ==> 0 <= rhs < 32,
            (*self is Shl) ==> 0 <= lhs < 0x8000_0000,
        ensures
            !(*self is Div || *self is Mod || *self is Shl || *self is Shr || *self is Xor) ==> res == spec_apply(*self, lhs as int, rhs as int),
    {
        match self {
            BinaryOp::Add => lhs + rhs,
            BinaryOp::Sub => lhs - rhs,
            BinaryOp::Mul => lhs * rhs,
            BinaryOp::Div => match rhs {
                0 => 0,
                _ => lhs / rhs,
            },
            BinaryOp::Mod => match rhs {
                0 => 0,
                _ => lhs % rhs,
            },
            BinaryOp::Shl => lhs << rhs,
            BinaryOp::Shr => lhs >> rhs,
            BinaryOp::Xor => lhs ^ rhs,
            BinaryOp::Eq => (lhs == rhs) as i64,
            BinaryOp::Ne => (lhs != rhs) as i64,
            BinaryOp::Gt => (lhs > rhs) as i64,
            BinaryOp::GtEq => (lhs >= rhs) as i64,
            BinaryOp::Lt => (lhs < rhs) as i64,
            BinaryOp::LtEq => (lhs <= rhs) as i64,
            BinaryOp::And => (lhs != 0 && rhs != 0) as i64,
            BinaryOp::Or => (lhs != 0 || rhs != 0) as i64,
        }
    }
}
}
fn main() {}

use vstd::prelude::*;
use std::ops::{Add, Deref, Range};
verus! {
#[derive(Clone, Copy)]
pub struct ProgramCounter(usize);

impl ProgramCounter {
    pub closed spec fn v(&self) -> usize { self.0 }
    pub fn new(pc: usize) -> (r: Self) ensures r.v() == pc { Self(pc) }
    pub fn as_usize(&self) -> (r: usize) ensures r == self.v() { self.0 }
}

impl vstd::std_specs::ops::AddSpecImpl<usize> for ProgramCounter {
    open spec fn obeys_add_spec() -> bool { true }
    open spec fn add_req(self, rhs: usize) -> bool { self.v() + rhs <= usize::MAX }
    closed spec fn add_spec(self, rhs: usize) -> ProgramCounter { ProgramCounter((self.v() + rhs) as usize) }
}

impl Add<usize> for ProgramCounter {
    type Output = ProgramCounter;

    fn add(self, rhs: usize) -> Self::Output {
        Self(self.0 + rhs)
    }
}

impl Deref for ProgramCounter {
    type Target = usize;

    fn deref(&self) -> &Self::Target {
        &self.0
    }
}

fn t(p: ProgramCounter, n: usize) -> (r: Range<usize>)
    requires p.v() + n <= usize::MAX
    ensures r.start == p.v(), r.end == p.v() + n
{
    let e = p + n;
    *p..*e
}
}
fn main() {}

#!/bin/sh
# run recorded seeded changes against the check(s) of the property they break; one line per seed
# usage: tools/seed_matrix.sh <out file> [seed dir names...]
cd "$(dirname "$0")/.."
OUT=${1:-/var/tmp/seedtry/matrix.txt}; shift
[ $# -eq 0 ] && set -- $(ls seeded | grep -E "^C[0-9]+-[0-9]+$")
: > $OUT
for T in "$@"; do
  P=${T%-*}
  PROPS="$P"
  [ "$P" = C06 ] && PROPS="C06 C02 C11"
  [ "$T" = C06-10 ] && PROPS="C06"
  [ "$T" = C06-11 ] && PROPS="C06 C09"
  [ "$T" = C02-4 ] && PROPS="C02 C09"
  [ "$T" = C02-5 ] && PROPS="C02 C01"
  [ "$T" = C09-6 ] && PROPS="C09 C02"
  R=$(timeout 3000 tools/try_seed.sh $PWD/seeded/$T/patch.diff m-$T $PROPS 2>&1 | grep -E "^===|VIOLATION|UNDECIDED|^OK" | sed -E 's/replay=[^ ]*\/([^\/ ]*)\.json/ob=\1/' | cut -c1-160 | tr '\n' '|')
  echo "$T $R" >> $OUT
done
echo finished >> $OUT

#!/bin/sh
# run every recorded seeded change against the check(s) of the property it breaks; one line per seed
cd "$(dirname "$0")/.."
OUT=${1:-/var/tmp/seedtry/matrix.txt}
: > $OUT
for D in seeded/*/; do
  T=$(basename $D); P=${T%-*}
  PROPS="$P"
  [ "$P" = C06 ] && PROPS="C06 C02 C11"
  R=$(timeout 3000 tools/try_seed.sh $PWD/$D/patch.diff m-$T $PROPS 2>&1 | grep -E "^===|VIOLATION|UNDECIDED|^OK" | sed -E 's/replay=[^ ]*\/([^\/ ]*)\.json/ob=\1/' | cut -c1-160 | tr '\n' '|')
  echo "$T $R" >> $OUT
done
echo finished >> $OUT

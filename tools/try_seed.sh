#!/bin/sh
# usage: tools/try_seed.sh <patch.diff> <tag> <property>...   -- run checks against a scratch copy of /repo with the patch applied
# (development aid for the seeded-change trials; registered checks always run against /repo itself)
set -e
PATCH="$1"; TAG="$2"; shift 2
HERE="$(cd "$(dirname "$0")/.." && pwd)"
W=/var/tmp/seedtry/$TAG
rm -rf "$W"; mkdir -p "$W"
rsync -a --exclude /target --exclude /.git /repo/ "$W/repo/"
( cd "$W/repo" && git init -q . && git apply --whitespace=nowarn "$PATCH" )
for P in "$@"; do
  echo "=== $TAG $P"
  VERIF_REPO="$W/repo" VERIF_SCRATCH="$W/scratch" VERIF_EVIDENCE_DIR="$W/evidence" VERIF_REPLAY_DIR="$W/replay" "$HERE/check" "$P" 2>&1 | tail -6 || true
done
rm -rf "$W/repo" "$W/scratch"

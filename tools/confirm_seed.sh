#!/bin/sh
# usage: tools/confirm_seed.sh <worktree> <agent out dir> <seed id> <property> "<what it needs to manifest>"
# Confirms a seeded change in a scratch worktree of /repo (pristine demo passes, patch applies, workspace tests pass,
# demo fails with the patch) and records it under /verif/seeded/<seed id>/.  The worktree is left clean.
set -u
WT="$1"; OUT="$2"; ID="$3"; PROP="$4"; NEEDS="$5"
V="$(cd "$(dirname "$0")/.." && pwd)"
export CARGO_TARGET_DIR="$WT/target" CARGO_NET_OFFLINE=true
cd "$WT" || exit 2
git checkout -q -- . ; git status --short | grep -v '^??' && { echo "worktree not clean"; exit 2; }
bash "$OUT/demo.sh" "$WT" > /tmp/confirm-$ID-pristine.log 2>&1; P=$?
git apply --whitespace=nowarn "$OUT/patch.diff"; A=$?
T=$(cargo test --workspace --no-fail-fast --offline -j 8 2>&1 | grep -E "^test result" | tr '\n' ' ')
bash "$OUT/demo.sh" "$WT" > /tmp/confirm-$ID-patched.log 2>&1; Q=$?
git checkout -q -- .
# untracked files the patch added
git status --short | grep '^??' | grep -v -E ' (out|target)/' | awk '{print $2}' | xargs -r rm -rf
echo "$ID demo_pristine_exit=$P patch_applies=$((1-A)) demo_patched_exit=$Q tests=$T"
OKT=$(echo "$T" | grep -c "59 passed; 0 failed.*150 passed; 0 failed")
if [ $P -eq 0 ] && [ $A -eq 0 ] && [ $Q -ne 0 ] && [ "$OKT" = 1 ]; then
  D="$V/seeded/$ID"; rm -rf "$D"; mkdir -p "$D"
  cp -r "$OUT"/* "$D"/
  python3 - "$D" "$PROP" "$NEEDS" "$WT" "$P" "$Q" "$T" <<'PY'
import json,sys
d,prop,needs,wt,p,q,t=sys.argv[1:8]
json.dump({"breaks_property":prop,"needs_to_manifest":needs,
 "origin":"round 4: fresh sub-agent given only the property text, the list of earlier changes to avoid, and a scratch worktree of /repo",
 "confirmed":{"how":"in the scratch worktree %s: ran demo.sh on the pristine tree (exit %s); git apply patch.diff; cargo test --workspace --no-fail-fast --offline; demo.sh again (exit %s); tree restored"%(wt,p,q),
 "raw":["demo_pristine_exit="+p,"patch_applies=1","tests="+t,"demo_patched_exit="+q]},
 "detected_by":"see DESIGN.md §10"},open(d+"/meta.json","w"),indent=1)
PY
  echo "CONFIRMED $ID"
else
  echo "NOT CONFIRMED $ID (see /tmp/confirm-$ID-*.log)"
fi

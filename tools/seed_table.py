#!/usr/bin/env python3
"""Render DESIGN.md §10 from the seed-matrix outputs (tools/seed_matrix.sh) and seeded/*/meta.json"""
import json, os, re, sys
rows = {}
for f in [a for a in sys.argv[1:] if not a.startswith("--")]:
    for l in open(f):
        l = l.rstrip("\n")
        if not l or l == "finished":
            continue
        tag, _, rest = l.partition(" ")
        rows[tag] = rest
# rows of the table as it stands: a seed that was not re-run keeps its recorded result
old = {}
try:
    d0 = open("/verif/DESIGN.md").read()
    for l in d0[d0.index("<!-- SEEDTABLE BEGIN -->"):d0.index("<!-- SEEDTABLE END -->")].split("\n"):
        m = re.match(r"\| (C\d+-\d+) \| .* \| (V|U|–) \| (.*) \|$", l)
        if m:
            old[m.group(1)] = (m.group(2), m.group(3))
except Exception:
    pass
out = ["| seed | what the change needs to manifest | result | reported obligation(s) / reason |", "|---|---|---|---|"]
tot = {"V": 0, "U": 0, "–": 0}
for tag in sorted([t for t in os.listdir("/verif/seeded") if re.match(r"C\d+-\d+$", t)], key=lambda t: (t.split("-")[0], int(t.split("-")[1]))):
    meta = json.load(open("/verif/seeded/%s/meta.json" % tag))
    rest = rows.get(tag, "")
    obs = sorted(set(re.findall(r"ob=([^ |]+)", rest)))
    und = re.findall(r"UNDECIDED property=\S+ unit=(\S+) reason=([^|]*)", rest)
    props = re.findall(r"=== \S+ (C\d+)", rest)
    if obs:
        res = "V"; why = ", ".join("`%s`" % o for o in obs[:4]) + (" …" if len(obs) > 4 else "")
        viol_props = sorted(set(re.findall(r"VIOLATION property=(C\d+)", rest)))
        why += " (check%s %s)" % ("s" if len(viol_props) > 1 else "", ", ".join(viol_props))
    elif und:
        res = "U"; why = "unit `%s`: %s" % (und[0][0], und[0][1][:110])
    elif rest:
        res = "–"; why = "outside every contract (see §9 / MANIFEST level_note)"
    elif tag in old:
        res, why = old[tag]
    else:
        res = "?"; why = "not run"
    tot[res] = tot.get(res, 0) + 1
    out.append("| %s | %s | %s | %s |" % (tag, meta["needs_to_manifest"].replace("|", "\\|"), res, why if tag in old and tag not in rows else why.replace("|", "\\|")))
out.append("")
out.append("Totals: %d reported as VIOLATION, %d UNDECIDED (extraction anchor / struct shape / tool limit - never an alarm), %d not noticed." % (tot["V"], tot["U"], tot["–"]))
text = "\n".join(out)
if "--write" in sys.argv:
    p = "/verif/DESIGN.md"
    d = open(p).read()
    a = d.index("<!-- SEEDTABLE BEGIN -->") + len("<!-- SEEDTABLE BEGIN -->")
    b = d.index("<!-- SEEDTABLE END -->")
    open(p, "w").write(d[:a] + "\n" + text + "\n" + d[b:])
else:
    print(text)

#!/bin/sh
cd "$(dirname "$0")/.."
for P in C02 C03 C09 C11 C18 C01 C06 C14; do
  VERIF_EVIDENCE_DIR=/var/tmp/thorough-ev ./check $P --tier thorough > /var/tmp/thorough-$P.log 2>&1; echo "$P exit=$? $(tail -1 /var/tmp/thorough-$P.log | cut -c1-160)"
done

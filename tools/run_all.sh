#!/bin/sh
# run every registered check on /repo (quick tier) and list the verdicts
cd "$(dirname "$0")/.."
for P in C01 C02 C03 C06 C09 C11 C14 C18; do
  ./check $P > /var/tmp/runall-$P.log 2>&1; echo "$P exit=$? $(tail -1 /var/tmp/runall-$P.log | cut -c1-150)"
done

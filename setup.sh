#!/bin/sh
# Run once after a fresh restore (offline).  Builds nothing that a check cannot rebuild itself:
# it cross-checks the ISA oracle and warms the tool caches so that the first check is not slow.
set -e
cd "$(dirname "$0")"
export CARGO_NET_OFFLINE=true
python3 engine/isa_crosscheck.py
S="${VERIF_SCRATCH:-/var/tmp/verif-mos}/setup"
rm -rf "$S"; mkdir -p "$S" .cache
# warm Verus (first start unpacks its caches)
cat > "$S/warm.rs" <<'R'
use vstd::prelude::*;
verus! { fn id(x: u8) -> (r: u8) ensures r == x { x } }
fn main() {}
R
( cd "$S" && verus warm.rs >/dev/null 2>&1 ) || { echo "setup: verus is not usable" >&2; exit 1; }
# warm stand-alone Kani
cat > "$S/warm_kani.rs" <<'R'
#[cfg(kani)] #[kani::proof] fn warm() { let x: u8 = kani::any(); assert!(x as u16 <= 255); }
fn main() {}
R
( cd "$S" && kani warm_kani.rs --output-format terse >/dev/null 2>&1 ) || { echo "setup: kani is not usable" >&2; exit 1; }
# warm the in-place Kani build of mos-core (dependencies compile once into .cache/kani-target)
mkdir -p "${VERIF_SCRATCH:-/var/tmp/verif-mos}/kani"
rsync -a --delete --exclude /target --exclude /.git --exclude /vscode --exclude /docs /repo/ "${VERIF_SCRATCH:-/var/tmp/verif-mos}/kani/src/"
( cd "${VERIF_SCRATCH:-/var/tmp/verif-mos}/kani/src" && python3 /verif/contracts/opcodes/gen.py >> mos-core/src/codegen/opcodes.rs \
  && CARGO_TARGET_DIR=/verif/.cache/kani-target cargo kani -p mos-core -Z function-contracts -Z stubbing --only-codegen >/dev/null 2>&1 ) \
  || echo "setup: warning: kani warm-up build failed (checks will build on first use)" >&2
rm -rf "${VERIF_SCRATCH:-/var/tmp/verif-mos}/kani/src" "$S"
# real binary for counterexample replay
( cd /repo && CARGO_TARGET_DIR=/verif/.cache/real cargo build --offline -p mos >/dev/null 2>&1 ) || echo "setup: warning: could not pre-build the mos binary for replay" >&2
echo "setup: ok"
